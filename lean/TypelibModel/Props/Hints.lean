/-
  Member hints of a class or callable (Model/Hints.lean): `inspection.get_type_hints(obj, exhaustive)`,
  `_hints_from_signature`, `signature` (+ `typed_dict_signature`, `tuple_signature`, the named-tuple exception),
  `cached_type_hints` / `cached_signature`.  Built and audited with C17.

  Proved for every description (no bound on the length of an MRO, the number of annotations or parameters), under the
  decidable well-formedness `wf` where a statement needs it (dict keys and parameter names distinct, no parameter annotated
  with the `KW_ONLY` sentinel, a non-empty MRO):
    (a) `hints_mro_modules` (from `hints_by_declaring_class`) — the hint of a field is its annotation evaluated in the scope
        of the class that DECLARES it: that class's module first, its own namespace, builtins; the module of a derived class
        never enters                                                   (`hints_mro_modules_needed`: seed C05h);
    (b) `non_exhaustive_never_signature`, `non_exhaustive_total`, `exhaustive_irrelevant_when_hints` — with
        `exhaustive=False` every name of the result is annotated on the object itself and the call cannot fail
                                                                       (`non_exhaustive_never_signature_needed`: seed C18g);
    (c) `hints_stateless` (from `cached_sequence_pointwise`), `signature_sequence_pointwise`, `signature_own_ctor` — the
        memoised functions answer every object of a sequence like the plain functions, in any order; a class defining its own
        `__init__` / `__new__` has that signature whatever was asked of its bases before
                                                                       (`hints_stateless_needed`: seed C12h;
                                                                        `cache_needs_fixed_namespace`: the theme of C09h);
    (d) `namedtuple_keeps_signature`, `plain_tuple_gets_fake`, `namedtuple_hintless_hints`
                                                                       (`namedtuple_keeps_signature_needed`: seed C15h);
    (e) `callable_params_by_own_annotation`, `function_signature_own`, `function_hints_by_own_annotation`,
        `instance_signature_is_call` — what `bind` converts a parameter with is the annotation of THAT parameter on the
        signature; for a class it depends on the constructor only, not on attribute annotations.  `get_type_hints(cls)`
        answers for the ATTRIBUTES, `signature(cls)` for the PARAMETERS
                                                                       (`callable_params_by_own_annotation_needed`: seed C10g);
    (f) `kw_only_dropped`, `tuple_signature_spec`, and `typeddict_signature_spec` at full strength (one keyword-only parameter
        per hint of the class itself, in order, required iff the key is in `__required_keys__`; no side condition)
                                                                       (`typeddict_signature_spec_needed`: the code before 629e6a2 —
                                                                        `b: NotRequired[int]`, `a: Required[int]` under total=False,
                                                                        a key named `items`);
        `get_type_hints_total`, `signature_never_recurses`, `typeddict_signature_total`, `typeddict_without_hints_empty` — the
        call never fails, for either value of `exhaustive`      (`get_type_hints_total_needed`: the code before 87eadd9 — the
                                                                        empty TypedDict, the one without a resolvable hint);
    (g) `param_annotation_module`, `bind_caller_irrelevant`, `param_annotation_reference` — the type `bind` converts a parameter
        to is a function of the callable's signature and of the namespace of the callable's OWN module; who binds is irrelevant
                                                                       (`param_annotation_module_needed`: the code before f5b21b1 —
                                                                        resolved in the caller's module, first caller memoised).

  History: the first version of this file (against /repo befc63c) had to state `typeddict_signature_spec` with the side conditions
  "has a resolvable hint" and "no attribute of the class named like the key", by `__total__`; `get_type_hints` had the failure
  domain `typeddict_without_hints_recurses`.  Running the real code at the excluded points showed three defects, repaired by
  87eadd9, 629e6a2 and f5b21b1; the pre-repair functions are kept as mutants in Model/Hints.lean.

  Behaviour that stays (CPython's, reproduced by harness/props/hints_corr.py and counted in the evidence): CPython 3.12 evaluates the
  flattened annotations of a TypedDict subclass with the DERIVED module as locals (`typeddict_flattening_resolves_in_derived_module`).
-/
import TypelibModel.Model.Hints
namespace Typelib.MemberHints
open Typelib Typelib.Hints

instance instDecEqExcept {ε α : Type} [DecidableEq ε] [DecidableEq α] : DecidableEq (Except ε α)
  | .ok a, .ok b => if h : a = b then isTrue (by rw [h]) else isFalse (by intro e; cases e; exact h rfl)
  | .error a, .error b => if h : a = b then isTrue (by rw [h]) else isFalse (by intro e; cases e; exact h rfl)
  | .ok _, .error _ => isFalse (by intro e; cases e)
  | .error _, .ok _ => isFalse (by intro e; cases e)


theorem nodupB_iff (xs : List Str) : nodupB xs = true ↔ xs.Nodup := by
  induction xs with
  | nil => simp [nodupB]
  | cons x xs ih => simp [nodupB, ih, List.nodup_cons]

theorem lookup_nil {α : Type} (k : Str) : (([] : Dict α).lookup k) = none := rfl

theorem lookup_cons {α : Type} (k n : Str) (v : α) (d : Dict α) :
    List.lookup k ((n, v) :: d) = if k = n then some v else List.lookup k d := by
  by_cases h : k = n
  · subst h; simp [List.lookup]
  · have : (k == n) = false := by simpa using h
    simp [List.lookup, this, h]

theorem lookup_none_iff {α : Type} (k : Str) (d : Dict α) : List.lookup k d = none ↔ k ∉ keys d := by
  induction d with
  | nil => simp [keys]
  | cons p d ih =>
    obtain ⟨n, v⟩ := p
    rw [lookup_cons]
    by_cases h : k = n
    · subst h; simp [keys]
    · simp [h, keys] at ih ⊢; exact ih

theorem lookup_upsert (d : Dict Hint) (n : Str) (h : Hint) (k : Str) :
    List.lookup k (upsert d n h) = if k = n then some h else List.lookup k d := by
  induction d with
  | nil => simp [upsert, lookup_cons]
  | cons p d ih =>
    obtain ⟨k', v⟩ := p
    by_cases hk : k' = n
    · subst hk
      simp [upsert, lookup_cons]
      by_cases h2 : k = k' <;> simp [h2]
    · by_cases h2 : k = k'
      · subst h2; simp [upsert, hk]
      · simp [upsert, hk, lookup_cons, h2, ih]

theorem mem_keys_upsert (d : Dict Hint) (n : Str) (h : Hint) (x : Str) :
    x ∈ keys (upsert d n h) ↔ x ∈ keys d ∨ x = n := by
  induction d with
  | nil => simp [upsert, keys]
  | cons p d ih =>
    obtain ⟨k', v⟩ := p
    by_cases hk : k' = n
    · subst hk; simp [upsert, keys]; intro h; exact Or.inl h
    · have e : upsert ((k', v) :: d) n h = (k', v) :: upsert d n h := by simp [upsert, hk]
      rw [e]
      simp only [keys, List.map_cons, List.mem_cons] at ih ⊢
      rw [ih]; simp [or_assoc]

theorem lookup_updateAll (own : Dict Hint) : ∀ (d : Dict Hint) (k : Str), (keys own).Nodup →
    List.lookup k (updateAll d own) = match List.lookup k own with
      | some h => some h
      | none => List.lookup k d := by
  induction own with
  | nil => intro d k _; simp [updateAll]
  | cons p own ih =>
    intro d k hn
    obtain ⟨n, h⟩ := p
    simp only [keys, List.map_cons, List.nodup_cons] at hn
    simp only [updateAll]
    rw [ih _ _ hn.2, lookup_cons, lookup_upsert]
    by_cases hk : k = n
    · subst hk
      have : List.lookup k own = none := (lookup_none_iff k own).mpr hn.1
      simp [this]
    · simp [hk]

theorem mem_keys_updateAll (own : Dict Hint) : ∀ (d : Dict Hint) (x : Str),
    x ∈ keys (updateAll d own) → x ∈ keys d ∨ x ∈ keys own := by
  induction own with
  | nil => intro d x h; exact Or.inl h
  | cons p own ih =>
    intro d x hx
    obtain ⟨n, h⟩ := p
    simp only [updateAll] at hx
    rcases ih _ _ hx with h1 | h1
    · rcases (mem_keys_upsert d n h x).mp h1 with h2 | h2
      · exact Or.inl h2
      · subst h2; exact Or.inr (by simp [keys])
    · exact Or.inr (by simp [keys] at h1 ⊢; exact Or.inr h1)

theorem evalItems_keys (ev : AnnExpr → Except TErr Hint) : ∀ (a : Dict AnnExpr) (r : Dict Hint),
    evalItems ev a = .ok r → keys r = keys a := by
  intro a
  induction a with
  | nil => intro r h; simp [evalItems] at h; subst h; rfl
  | cons p a ih =>
    intro r h
    simp only [evalItems] at h
    split at h
    · cases h
    · split at h
      · cases h
      · rename_i rest hrest
        cases h
        have := ih rest hrest
        simp only [keys] at this ⊢
        simp [this]

theorem evalItems_lookup (ev : AnnExpr → Except TErr Hint) : ∀ (a : Dict AnnExpr) (r : Dict Hint),
    evalItems ev a = .ok r → ∀ k, match List.lookup k a with
      | some x => ∃ h, ev x = .ok h ∧ List.lookup k r = some h
      | none => List.lookup k r = none := by
  intro a
  induction a with
  | nil => intro r h k; simp [evalItems] at h; subst h; simp
  | cons p a ih =>
    intro r h k
    obtain ⟨n, x⟩ := p
    simp only [evalItems] at h
    split at h
    · cases h
    · rename_i hv hev
      split at h
      · cases h
      · rename_i rest hrest
        cases h
        rw [lookup_cons, lookup_cons]
        by_cases hk : k = n
        · simp [hk]; exact hev
        · simpa [hk] using ih rest hrest k

theorem lookup_filter_keep {α : Type} (p : Str × α → Bool) : ∀ (d : Dict α) (k : Str) (v : α),
    List.lookup k d = some v → p (k, v) = true → List.lookup k (d.filter p) = some v := by
  intro d
  induction d with
  | nil => intro k v h; simp at h
  | cons q d ih =>
    intro k v h hp
    obtain ⟨n, w⟩ := q
    rw [lookup_cons] at h
    by_cases hk : k = n
    · subst hk
      simp at h; subst h
      simp [List.filter, hp]
    · simp [hk] at h
      by_cases hq : p (n, w) = true
      · simp [List.filter, hq, lookup_cons, hk]; exact ih k v h hp
      · have hq' : p (n, w) = false := by simpa using hq
        simp [List.filter, hq']; exact ih k v h hp

theorem lookup_filter_drop {α : Type} (p : Str × α → Bool) : ∀ (d : Dict α) (k : Str) (v : α),
    (keys d).Nodup → List.lookup k d = some v → p (k, v) = false → List.lookup k (d.filter p) = none := by
  intro d
  induction d with
  | nil => intro k v _ h; simp at h
  | cons q d ih =>
    intro k v hn h hp
    obtain ⟨n, w⟩ := q
    simp only [keys, List.map_cons, List.nodup_cons] at hn
    rw [lookup_cons] at h
    by_cases hk : k = n
    · subst hk
      simp at h; subst h
      simp only [List.filter, hp]
      rw [lookup_none_iff]
      intro hm
      apply hn.1
      simp only [keys, List.mem_map] at hm ⊢
      obtain ⟨a, ha, hak⟩ := hm
      exact ⟨a, (List.mem_filter.mp ha).1, hak⟩
    · simp [hk] at h
      by_cases hq : p (n, w) = true
      · have e : List.filter p ((n, w) :: d) = (n, w) :: List.filter p d := by simp [List.filter, hq]
        rw [e, lookup_cons, if_neg hk]; exact ih k v hn.2 h hp
      · have hq' : p (n, w) = false := by simpa using hq
        have e : List.filter p ((n, w) :: d) = List.filter p d := by simp [List.filter, hq']
        rw [e]; exact ih k v hn.2 h hp

theorem mem_keys_filter {α : Type} (p : Str × α → Bool) (d : Dict α) (x : Str) :
    x ∈ keys (d.filter p) → x ∈ keys d := by
  simp only [keys, List.mem_map]
  rintro ⟨a, ha, hx⟩
  exact ⟨a, (List.mem_filter.mp ha).1, hx⟩

/-! ### (a) every hint is evaluated where it is declared -/

/-- the class of the MRO that DECLARES `n` (the most derived one annotating it), with the annotation -/
def declaring (n : Str) : List ClassEntry → Option (ClassEntry × AnnExpr)
  | [] => none
  | e :: rest =>
    match List.lookup n e.anns with
    | some a => some (e, a)
    | none => declaring n rest

theorem entryOk_nodup {e : ClassEntry} (h : entryOk e = true) : (keys e.anns).Nodup := by
  simp [entryOk] at h; exact (nodupB_iff _).mp h.1

/-- `typing.get_type_hints(cls)[n]` is the annotation of the declaring class evaluated in the scope of THAT class
    (its module first, its own namespace, builtins) — nothing of the derived classes enters. -/
theorem hints_by_declaring_class (env : Hints.Env) : ∀ (mro : List ClassEntry) (h : Dict Hint),
    mro.all entryOk = true → hintsOfMro env mro = .ok h → ∀ n,
    match declaring n mro with
    | some (e, a) => ∃ v, evalAnn env (modDict env e.module) (classScope env e) a = .ok v ∧ List.lookup n h = some v
    | none => List.lookup n h = none := by
  intro mro
  induction mro with
  | nil => intro h _ hok n; simp [hintsOfMro] at hok; subst hok; simp [declaring]
  | cons e rest ih =>
    intro h hw hok n
    simp only [List.all_cons, Bool.and_eq_true] at hw
    simp only [hintsOfMro] at hok
    split at hok
    · cases hok
    · rename_i base hbase
      split at hok
      · cases hok
      · rename_i own hown
        cases hok
        have hkeys : (keys own).Nodup := by
          rw [evalItems_keys _ _ _ hown]; exact entryOk_nodup hw.1
        rw [lookup_updateAll own base n hkeys]
        have hl := evalItems_lookup _ _ _ hown n
        simp only [declaring]
        cases hd : List.lookup n e.anns with
        | some a =>
          simp only [hd] at hl
          obtain ⟨v, hv, hlv⟩ := hl
          simp only [hlv]
          exact ⟨v, hv, rfl⟩
        | none =>
          simp only [hd] at hl
          simp only [hl]
          exact ih base hw.2 hbase n

theorem hintsOfMro_keys (env : Hints.Env) : ∀ (mro : List ClassEntry) (h : Dict Hint),
    hintsOfMro env mro = .ok h → ∀ x ∈ keys h, x ∈ mroAnnotated mro := by
  intro mro
  induction mro with
  | nil => intro h hok x hx; simp [hintsOfMro] at hok; subst hok; simp [keys] at hx
  | cons e rest ih =>
    intro h hok x hx
    simp only [hintsOfMro] at hok
    split at hok
    · cases hok
    · rename_i base hbase
      split at hok
      · cases hok
      · rename_i own hown
        cases hok
        simp only [mroAnnotated, List.mem_append]
        rcases mem_keys_updateAll own base x hx with h1 | h1
        · exact Or.inr (ih base hbase x h1)
        · left; rw [← evalItems_keys _ _ _ hown]; exact h1

theorem baseHints_of_ok {env : Hints.Env} {o : Obj} {h : Dict Hint} (hok : typingGetTypeHints env o = .ok h) :
    baseHints env o = h.filter notKwOnly := by simp [baseHints, hok]

theorem baseHints_of_error {env : Hints.Env} {o : Obj} {x : TErr} (herr : typingGetTypeHints env o = .error x) :
    baseHints env o = [] := by simp [baseHints, herr]

/-- when the wrapper answers from typing's hints, the result IS `baseHints` -/
theorem getTypeHints_of_nonempty {env : Hints.Env} {o : Obj} {exh : Bool} (hne : baseHints env o ≠ []) :
    getTypeHints env o exh = .ok (baseHints env o) := by
  have : (baseHints env o).isEmpty = false := by
    cases hb : baseHints env o with
    | nil => exact absurd hb hne
    | cons _ _ => rfl
  simp [getTypeHints, this]

theorem nodup_upsert (n : Str) (h : Hint) : ∀ (d : Dict Hint), (keys d).Nodup → (keys (upsert d n h)).Nodup := by
  intro d
  induction d with
  | nil => intro _; simp [upsert, keys]
  | cons q d ih =>
    intro hb
    obtain ⟨k, v⟩ := q
    simp only [keys, List.map_cons, List.nodup_cons] at hb
    by_cases hk : k = n
    · have e : upsert ((k, v) :: d) n h = (k, h) :: d := by simp [upsert, hk]
      rw [e]; simp only [keys, List.map_cons, List.nodup_cons]; exact hb
    · have e : upsert ((k, v) :: d) n h = (k, v) :: upsert d n h := by simp [upsert, hk]
      rw [e]
      simp only [keys, List.map_cons, List.nodup_cons]
      refine ⟨?_, ih hb.2⟩
      intro hm
      rcases (mem_keys_upsert d n h k).mp hm with h1 | h1
      · exact hb.1 h1
      · exact hk h1

theorem nodup_updateAll : ∀ (own d : Dict Hint), (keys d).Nodup → (keys (updateAll d own)).Nodup := by
  intro own
  induction own with
  | nil => intro d h; simpa [updateAll] using h
  | cons p own ih => intro d h; simp only [updateAll]; exact ih _ (nodup_upsert p.1 p.2 d h)

theorem hintsOfMro_nodup (env : Hints.Env) : ∀ (mro : List ClassEntry) (h : Dict Hint),
    hintsOfMro env mro = .ok h → (keys h).Nodup := by
  intro mro
  induction mro with
  | nil => intro h hok; simp [hintsOfMro] at hok; subst hok; simp [keys]
  | cons e rest ih =>
    intro h hok
    simp only [hintsOfMro] at hok
    split at hok
    · cases hok
    · rename_i base hbase
      split at hok
      · cases hok
      · rename_i own _
        cases hok
        exact nodup_updateAll own base (ih base hbase)

/-- (a) `hints_mro_modules`.  For a well-formed class whose hints come from typing (the non-fallback branch): the hint of a
    field declared — by a string annotation naming `s` — on class `e` of the MRO is what `s` is bound to in the MODULE OF `e`
    (then `vars(e)`, then builtins); the module of the derived class is not consulted.  (A name bound to the `KW_ONLY`
    sentinel is dropped instead.) -/
theorem hints_mro_modules (env : Hints.Env) (c : ClassDesc) (exh : Bool) (hw : wf (.cls c) = true)
    (hne : baseHints env (.cls c) ≠ [])
    (n s : Str) (e : ClassEntry) (hd : declaring n c.mro = some (e, .name s)) :
    ∃ r, getTypeHints env (.cls c) exh = .ok r ∧
      ((∃ v, resolve [modDict env e.module, e.ns, env.builtins] s = .ok v ∧ v ≠ .kwOnly ∧ List.lookup n r = some v)
        ∨ (resolve [modDict env e.module, e.ns, env.builtins] s = .ok .kwOnly ∧ List.lookup n r = none)) := by
  refine ⟨baseHints env (.cls c), getTypeHints_of_nonempty hne, ?_⟩
  cases hty : typingGetTypeHints env (.cls c) with
  | error x => exact absurd (baseHints_of_error hty) hne
  | ok h =>
    rw [baseHints_of_ok hty]
    simp only [typingGetTypeHints] at hty
    simp only [wf, classOk, Bool.and_eq_true] at hw
    have key := hints_by_declaring_class env c.mro h hw.1.2 hty n
    rw [hd] at key
    obtain ⟨v, hv, hl⟩ := key
    simp only [evalAnn, classScope] at hv
    by_cases hk : v = .kwOnly
    · right
      subst hk
      exact ⟨hv, lookup_filter_drop notKwOnly h n .kwOnly (hintsOfMro_nodup env _ _ hty) hl (by simp [notKwOnly])⟩
    · left
      exact ⟨v, hv, hk, lookup_filter_keep notKwOnly h n v hl (by simp [notKwOnly, hk])⟩

/-! ### (b) without `exhaustive` nothing comes from the signature -/

theorem nearestAnns_keys : ∀ (mro : List ClassEntry) (a : Dict AnnExpr), nearestAnns mro = some a →
    ∀ x ∈ keys a, x ∈ mroAnnotated mro := by
  intro mro
  induction mro with
  | nil => intro a h; simp [nearestAnns] at h
  | cons e rest ih =>
    intro a h x hx
    simp only [nearestAnns] at h
    simp only [mroAnnotated, List.mem_append]
    split at h
    · exact Or.inr (ih a h x hx)
    · cases h; exact Or.inl hx

theorem typing_keys_annotated (env : Hints.Env) (o : Obj) (h : Dict Hint) (hok : typingGetTypeHints env o = .ok h) :
    ∀ x ∈ keys h, x ∈ annotatedNames o := by
  intro x hx
  cases o with
  | cls c => exact hintsOfMro_keys env c.mro h hok x hx
  | func f =>
    simp only [typingGetTypeHints] at hok
    simp only [annotatedNames]
    rw [← evalItems_keys _ _ _ hok]; exact hx
  | inst c call =>
    simp only [typingGetTypeHints] at hok
    split at hok
    · cases hok
    · rename_i anns hn
      simp only [annotatedNames]
      apply nearestAnns_keys c.mro anns hn
      rw [← evalItems_keys _ _ _ hok]; exact hx
  | tupleAlias m a v => simp [typingGetTypeHints] at hok

theorem baseHints_keys_annotated (env : Hints.Env) (o : Obj) : ∀ x ∈ keys (baseHints env o), x ∈ annotatedNames o := by
  intro x hx
  cases hty : typingGetTypeHints env o with
  | error e => rw [baseHints_of_error hty] at hx; simp [keys] at hx
  | ok h =>
    rw [baseHints_of_ok hty] at hx
    exact typing_keys_annotated env o h hty x (mem_keys_filter _ _ _ hx)

/-- with `exhaustive=False` the call cannot fail and never looks at the signature -/
theorem non_exhaustive_total (env : Hints.Env) (o : Obj) : getTypeHints env o false = .ok (baseHints env o) := by
  simp [getTypeHints]

/-- (b) `non_exhaustive_never_signature`: every name of `get_type_hints(obj, exhaustive=False)` is annotated on the object
    itself (on some class of its MRO) — never a constructor parameter that is not. -/
theorem non_exhaustive_never_signature (env : Hints.Env) (o : Obj) (r : Dict Hint)
    (h : getTypeHints env o false = .ok r) : ∀ n ∈ keys r, n ∈ annotatedNames o := by
  rw [non_exhaustive_total] at h
  cases h
  exact baseHints_keys_annotated env o

/-- typing's hints, when there are any, win whatever `exhaustive` says -/
theorem exhaustive_irrelevant_when_hints (env : Hints.Env) (o : Obj) (hne : baseHints env o ≠ []) :
    getTypeHints env o true = getTypeHints env o false := by
  rw [getTypeHints_of_nonempty hne, getTypeHints_of_nonempty hne]

/-! ### (c) no state: a result is a function of the description of the object asked about -/

/-- `inspection.signature` through any sequence of calls: every answer is `signatureOf` of that object alone. -/
theorem signature_sequence_pointwise (env : Hints.Env) : ∀ (os : List Obj) (s : List (Nat × List Param)),
    runSeq (realSigStep env) s os = os.map (signatureOf env) := by
  intro os
  induction os with
  | nil => intro s; rfl
  | cons o os ih => intro s; simp [runSeq, realSigStep, ih]

theorem lookupNat_cons {β : Type} (k n : Nat) (v : β) (d : List (Nat × β)) :
    List.lookup k ((n, v) :: d) = if k = n then some v else List.lookup k d := by
  by_cases h : k = n
  · subst h; simp [List.lookup]
  · have : (k == n) = false := by simpa using h
    simp [List.lookup, this, h]

/-- A memo keyed by identity (`compat.cache`) answers every call like the function itself, in any order of calls,
    provided one identity stands for one answer throughout the sequence (nothing is redefined or rebound meanwhile). -/
theorem cached_sequence_pointwise {α β : Type} (f : α → β) (key : α → Nat) : ∀ (os : List α) (memo : List (Nat × β)),
    (∀ k r, List.lookup k memo = some r → ∀ o ∈ os, key o = k → r = f o) →
    (∀ o ∈ os, ∀ o' ∈ os, key o = key o' → f o = f o') →
    runSeq (cachedStep f key) memo os = os.map f := by
  intro os
  induction os with
  | nil => intro memo _ _; rfl
  | cons x xs ih =>
    intro memo hinv hinj
    have hinj' : ∀ o ∈ xs, ∀ o' ∈ xs, key o = key o' → f o = f o' :=
      fun o ho o' ho' => hinj o (List.mem_cons_of_mem _ ho) o' (List.mem_cons_of_mem _ ho')
    cases hl : List.lookup (key x) memo with
    | some r =>
      have hr : r = f x := hinv (key x) r hl x (List.mem_cons_self) rfl
      have hstep : cachedStep f key memo x = (memo, r) := by simp [cachedStep, hl]
      simp only [runSeq, hstep, List.map_cons, hr]
      congr 1
      exact ih memo (fun k r' hk o ho => hinv k r' hk o (List.mem_cons_of_mem _ ho)) hinj'
    | none =>
      have hstep : cachedStep f key memo x = ((key x, f x) :: memo, f x) := by simp [cachedStep, hl]
      simp only [runSeq, hstep, List.map_cons]
      congr 1
      apply ih _ _ hinj'
      intro k r' hk o ho hko
      rw [lookupNat_cons] at hk
      by_cases hkk : k = key x
      · simp [hkk] at hk
        rw [← hk]
        exact (hinj o (List.mem_cons_of_mem _ ho) x (List.mem_cons_self) (by rw [hko, hkk])).symm
      · simp [hkk] at hk
        exact hinv k r' hk o (List.mem_cons_of_mem _ ho) hko

/-- (c) `hints_stateless`: `cached_type_hints` / `cached_signature` over any sequence of objects, in any order (base first,
    subclass first, repeated): each answer is that of the object's own description. -/
theorem hints_stateless (env : Hints.Env) (key : Obj → Nat) (os : List Obj)
    (hid : ∀ o ∈ os, ∀ o' ∈ os, key o = key o' → o = o') :
    runSeq (cachedStep (cachedTypeHintsValue env) key) [] os = os.map (cachedTypeHintsValue env)
      ∧ runSeq (cachedStep (signatureOf env) key) [] os = os.map (signatureOf env) := by
  constructor
  · apply cached_sequence_pointwise
    · intro k r h; simp at h
    · intro o ho o' ho' hk; rw [hid o ho o' ho' hk]
  · apply cached_sequence_pointwise
    · intro k r h; simp at h
    · intro o ho o' ho' hk; rw [hid o ho o' ho' hk]

/-- the signature of a class that defines its own `__init__` / `__new__` is that one, whatever its bases define -/
theorem signature_own_ctor (env : Hints.Env) (c : ClassDesc) (e : ClassEntry) (rest : List ClassEntry) (ps : List Param)
    (hm : c.mro = e :: rest) (hc : e.ctor = some ps) (hk : reachesInspect c.kind = true) :
    signatureOf env (.cls c) = .ok ps := by
  have hr : realSignature c = .ok ps := by simp [realSignature, hm, firstCtor, hc]
  cases hkind : c.kind <;> simp [signatureOf, hkind, hr] <;> simp [hkind, reachesInspect] at hk

/-! ### (d) named tuples keep their signature -/

/-- (d) `namedtuple_keeps_signature`: a class with `_fields` — typed or hint-less — gets its real signature. -/
theorem namedtuple_keeps_signature (env : Hints.Env) (c : ClassDesc) (hk : c.kind = .namedTuple) :
    signatureOf env (.cls c) = realSignature c := by simp [signatureOf, hk]

/-- only tuple types WITHOUT `_fields` get the fake `(*args: Any)` -/
theorem plain_tuple_gets_fake (env : Hints.Env) (c : ClassDesc) (hk : c.kind = .tupleSub) :
    signatureOf env (.cls c) = .ok [{ name := argsName, kind := .varPos, ann := .obj .any, dflt := .none }] := by
  simp [signatureOf, hk, tupleSignature, firstOrAny]

/-- a hint-less `collections.namedtuple`: its hints (exhaustive) are its FIELD NAMES, each `Any` -/
theorem namedtuple_hintless_hints (env : Hints.Env) (c : ClassDesc) (ps : List Param) (hk : c.kind = .namedTuple)
    (hb : baseHints env (.cls c) = []) (hs : realSignature c = .ok ps) (hm : ∀ p ∈ ps, p.ann = .missing) :
    getTypeHints env (.cls c) true = .ok (ps.map fun p => (p.name, Hint.any)) := by
  have hsig : signatureOf env (.cls c) = .ok ps := by rw [namedtuple_keeps_signature env c hk, hs]
  simp only [getTypeHints, hb, List.isEmpty_nil, Bool.and_self, if_true, hintsFromSignature, hsig]
  congr 1
  apply List.map_congr_left
  intro p hp
  simp [paramHint, hm p hp, annHint]

/-! ### (e) parameters are converted by their OWN annotation -/

/-- a function / bound method: `signature` hands out its own parameters … -/
theorem function_signature_own (env : Hints.Env) (f : FuncDesc) :
    signatureOf env (.func f) = .ok f.params ∧ paramAnnotations env (.func f) = .ok (f.params.map paramAnn) := by
  simp [signatureOf, paramAnnotations]

/-- … and `get_type_hints` evaluates each annotation of the function in the function's module. -/
theorem function_hints_by_own_annotation (env : Hints.Env) (f : FuncDesc) (h : Dict Hint)
    (hok : typingGetTypeHints env (.func f) = .ok h) (n : Str) (a : AnnExpr) (ha : List.lookup n f.anns = some a) :
    ∃ v, evalFuncAnn env (modDict env f.module) [modDict env f.module, env.builtins] a = .ok v ∧ List.lookup n h = some v := by
  simp only [typingGetTypeHints] at hok
  have := evalItems_lookup _ _ _ hok n
  simp only [ha] at this
  exact this

theorem firstCtor_map_anns (g : ClassEntry → Dict AnnExpr) : ∀ (mro : List ClassEntry),
    firstCtor (mro.map fun e => { e with anns := g e }) = firstCtor mro := by
  intro mro
  induction mro with
  | nil => rfl
  | cons e rest ih => simp only [List.map_cons, firstCtor, ih]

/-- the same class with other attribute annotations -/
def withAnns (g : ClassEntry → Dict AnnExpr) (c : ClassDesc) : ClassDesc :=
  { c with mro := c.mro.map fun e => { e with anns := g e } }

/-- (e) `callable_params_by_own_annotation`, class case: for a class passed where a callable is expected, `signature` — which is
    what `bind` reads — depends on the constructor only; the class-level attribute annotations do not enter. -/
theorem callable_params_by_own_annotation (env : Hints.Env) (c : ClassDesc) (g : ClassEntry → Dict AnnExpr)
    (hk : reachesInspect c.kind = true) :
    signatureOf env (.cls (withAnns g c)) = signatureOf env (.cls c)
      ∧ paramAnnotations env (.cls (withAnns g c)) = paramAnnotations env (.cls c)
      ∧ paramAnnotations env (.cls c) = (match realSignature c with
          | .ok ps => .ok (ps.map paramAnn)
          | .error x => .error x) := by
  have hr : realSignature (withAnns g c) = realSignature c := by
    simp [realSignature, withAnns, firstCtor_map_anns]
  have hs : signatureOf env (.cls (withAnns g c)) = signatureOf env (.cls c) := by
    cases hkind : c.kind <;> simp [hkind, reachesInspect] at hk <;>
      simp only [signatureOf, show (withAnns g c).kind = c.kind from rfl, hkind, hr]
  have hs2 : signatureOf env (.cls c) = realSignature c := by
    cases hkind : c.kind <;> simp [hkind, reachesInspect] at hk <;> simp only [signatureOf, hkind]
  refine ⟨hs, by simp only [paramAnnotations, hs], ?_⟩
  simp only [paramAnnotations, hs2]
  cases realSignature c <;> rfl

/-- a callable instance: `signature` is that of its `__call__` -/
theorem instance_signature_is_call (env : Hints.Env) (c : ClassDesc) (ps : List Param) :
    signatureOf env (.inst c (some ps)) = .ok ps := rfl

/-! ### (f) the sentinel, the two synthetic signatures -/

theorem baseHints_no_sentinel (env : Hints.Env) (o : Obj) : ∀ p ∈ baseHints env o, p.2 ≠ .kwOnly := by
  intro p hp
  cases hty : typingGetTypeHints env o with
  | error e => rw [baseHints_of_error hty] at hp; cases hp
  | ok h =>
    rw [baseHints_of_ok hty] at hp
    have := (List.mem_filter.mp hp).2
    simpa [notKwOnly] using this

theorem firstCtor_ok : ∀ (mro : List ClassEntry) (ps : List Param), mro.all entryOk = true → firstCtor mro = some ps →
    paramsOk ps = true := by
  intro mro
  induction mro with
  | nil => intro ps _ h; simp [firstCtor] at h
  | cons e rest ih =>
    intro ps hw h
    simp only [List.all_cons, Bool.and_eq_true] at hw
    simp only [firstCtor] at h
    split at h
    · rename_i qs hq
      cases h
      have := hw.1
      simp only [entryOk, Bool.and_eq_true, hq, ctorOk] at this
      exact this.2
    · exact ih ps hw.2 h

theorem realSignature_ok (c : ClassDesc) (ps : List Param) (hw : classOk c = true) (h : realSignature c = .ok ps) :
    paramsOk ps = true := by
  simp only [classOk, Bool.and_eq_true] at hw
  simp only [realSignature] at h
  split at h
  · rename_i qs hq; cases h; exact firstCtor_ok c.mro _ hw.1.2 hq
  · split at h
    · rename_i qs hq; cases h; simpa [ctorOk, hq] using hw.2
    · cases h

theorem tupleParams_notSentinel : ∀ (hs : List Hint) (i : Nat), hs.all notSentinel = true →
    (tupleParams i hs).all annNotSentinel = true := by
  intro hs
  induction hs with
  | nil => intro i _; rfl
  | cons h hs ih =>
    intro i hw
    simp only [List.all_cons, Bool.and_eq_true] at hw
    simp only [tupleParams, List.all_cons, Bool.and_eq_true]
    refine ⟨?_, ih (i + 1) hw.2⟩
    have := hw.1
    simp only [notSentinel, bne_iff_ne, ne_eq] at this
    simp [annNotSentinel, this]

/-- no parameter of a signature the library hands out is annotated with the sentinel -/
theorem signatureOf_notSentinel (env : Hints.Env) (o : Obj) (ps : List Param) (hw : wf o = true)
    (h : signatureOf env o = .ok ps) : ps.all annNotSentinel = true := by
  cases o with
  | cls c =>
    simp only [wf] at hw
    cases hk : c.kind with
    | typedDict total req attrs =>
      simp only [signatureOf, hk] at h
      cases h
      simp only [typedDictSignature, List.all_map, List.all_eq_true]
      intro p hp
      have := baseHints_no_sentinel env (.cls c) p hp
      simp [annNotSentinel, tdParam, this]
    | tupleSub =>
      simp only [signatureOf, hk] at h
      cases h
      simp [tupleSignature, firstOrAny, annNotSentinel]
    | plain => simp only [signatureOf, hk] at h; have := realSignature_ok c ps hw h; simp [paramsOk] at this; simpa using this.2
    | dataclass => simp only [signatureOf, hk] at h; have := realSignature_ok c ps hw h; simp [paramsOk] at this; simpa using this.2
    | namedTuple => simp only [signatureOf, hk] at h; have := realSignature_ok c ps hw h; simp [paramsOk] at this; simpa using this.2
  | func f =>
    simp only [signatureOf] at h
    cases h
    simp only [wf, Bool.and_eq_true, paramsOk] at hw
    exact hw.2.2
  | inst c call =>
    simp only [signatureOf] at h
    split at h
    · rename_i qs
      cases h
      simp only [wf, Bool.and_eq_true, ctorOk, paramsOk] at hw
      exact hw.2.2
    · cases h
  | tupleAlias m args v =>
    simp only [signatureOf] at h
    cases h
    simp only [wf, Bool.and_eq_true] at hw
    simp only [tupleSignature]
    split
    · cases args with
      | nil => simp [firstOrAny, annNotSentinel]
      | cons a as =>
        have := hw.1
        simp only [List.all_cons, Bool.and_eq_true, notSentinel, bne_iff_ne, ne_eq] at this
        simp [firstOrAny, annNotSentinel, this.1]
    · exact tupleParams_notSentinel args 0 hw.1

/-- (f) `kw_only_dropped`: whatever the branch, no hint of the result is the `KW_ONLY` sentinel. -/
theorem kw_only_dropped (env : Hints.Env) (o : Obj) (exh : Bool) (r : Dict Hint) (hw : wf o = true)
    (h : getTypeHints env o exh = .ok r) : ∀ p ∈ r, p.2 ≠ .kwOnly := by
  simp only [getTypeHints] at h
  split at h
  · simp only [hintsFromSignature] at h
    split at h
    · rename_i ps hs
      cases h
      intro p hp
      obtain ⟨q, hq, rfl⟩ := List.mem_map.mp hp
      have hall := signatureOf_notSentinel env o ps hw hs
      have hq' := List.all_eq_true.mp hall q hq
      simp only [annNotSentinel, bne_iff_ne, ne_eq] at hq'
      simp only [paramHint]
      cases ha : q.ann with
      | missing => simp [annHint]
      | text s => simp [annHint]
      | obj hh =>
        simp only [annHint]
        intro heq
        apply hq'
        rw [ha, heq]
    · cases h
    · cases h; intro p hp; cases hp
  · cases h
    exact baseHints_no_sentinel env o

/-- (f) `typeddict_signature_spec` — at full strength since /repo 629e6a2 + 87eadd9: EVERY TypedDict (also one without any
    resolvable hint: then no parameter) gets one keyword-only parameter per hint of the class itself, in the order of the
    hints, annotated with the hint; a parameter is REQUIRED (no default) iff the key is in `__required_keys__`, and a
    non-required one has the default `...`.  Totality and attributes of the class named like a key play no part. -/
theorem typeddict_signature_spec (env : Hints.Env) (c : ClassDesc) (total : Bool) (req attrs : List Str)
    (hk : c.kind = .typedDict total (some req) attrs) :
    ∃ ps, signatureOf env (.cls c) = .ok ps
      ∧ ps.map Param.name = keys (baseHints env (.cls c))
      ∧ ps.map Param.ann = (baseHints env (.cls c)).map (fun p => PAnn.obj p.2)
      ∧ (∀ p ∈ ps, p.kind = .kwOnly)
      ∧ (∀ p ∈ ps, (p.dflt = .none ↔ p.name ∈ req) ∧ (p.dflt = .ellipsis ↔ p.name ∉ req)) := by
  refine ⟨typedDictSignature total (some req) (baseHints env (.cls c)), by simp [signatureOf, hk], ?_, ?_, ?_, ?_⟩
  · simp [typedDictSignature, keys, tdParam, Function.comp_def]
  · simp [typedDictSignature, tdParam, Function.comp_def]
  · intro p hp
    obtain ⟨q, _, rfl⟩ := List.mem_map.mp hp
    rfl
  · intro p hp
    obtain ⟨q, _, rfl⟩ := List.mem_map.mp hp
    simp only [tdParam, requiredOf]
    by_cases ha : q.1 ∈ req <;> simp [ha]

/-- a dict subclass that only has `__total__` (no `__required_keys__`): every key required iff total -/
theorem typeddict_signature_without_required_keys (env : Hints.Env) (c : ClassDesc) (total : Bool) (attrs : List Str)
    (hk : c.kind = .typedDict total none attrs) :
    ∃ ps, signatureOf env (.cls c) = .ok ps ∧ ps.map Param.name = keys (baseHints env (.cls c))
      ∧ ∀ p ∈ ps, (p.dflt = .none ↔ total = true) := by
  refine ⟨typedDictSignature total none (baseHints env (.cls c)), by simp [signatureOf, hk], ?_, ?_⟩
  · simp [typedDictSignature, keys, tdParam, Function.comp_def]
  · intro p hp
    obtain ⟨q, hq, rfl⟩ := List.mem_map.mp hp
    have hm : q.1 ∈ keys (baseHints env (.cls c)) := List.mem_map.mpr ⟨q, hq, rfl⟩
    cases total <;> simp [tdParam, requiredOf, hm]

theorem realSignature_not_recursion (c : ClassDesc) : realSignature c ≠ .error .recursion := by
  simp only [realSignature]
  split
  · simp
  · split <;> simp

/-- `signature` never runs into the mutual recursion any more (it may still have no answer: ValueError / TypeError of
    `inspect.signature`, which `_hints_from_signature` catches) -/
theorem signature_never_recurses (env : Hints.Env) (o : Obj) : signatureOf env o ≠ .error .recursion := by
  cases o with
  | cls c =>
    cases hk : c.kind with
    | typedDict t r a => simp [signatureOf, hk]
    | tupleSub => simp [signatureOf, hk]
    | plain => simp only [signatureOf, hk]; exact realSignature_not_recursion c
    | dataclass => simp only [signatureOf, hk]; exact realSignature_not_recursion c
    | namedTuple => simp only [signatureOf, hk]; exact realSignature_not_recursion c
  | func f => simp [signatureOf]
  | inst c call => simp only [signatureOf]; split <;> simp
  | tupleAlias m a v => simp [signatureOf]

/-- the signature of a TypedDict always exists: the empty one for a class without a resolvable hint -/
theorem typeddict_signature_total (env : Hints.Env) (c : ClassDesc) (hk : isTypedDict c.kind = true) :
    ∃ ps, signatureOf env (.cls c) = .ok ps ∧ (baseHints env (.cls c) = [] → ps = []) := by
  cases hkind : c.kind <;> simp [hkind, isTypedDict] at hk
  rename_i t r a
  refine ⟨typedDictSignature t r (baseHints env (.cls c)), by simp only [signatureOf, hkind], ?_⟩
  intro he; simp [typedDictSignature, he]

/-- `get_type_hints_total`: `get_type_hints(obj, exhaustive)` never fails, for either value of `exhaustive` and every object
    (also an empty TypedDict, a TypedDict whose hints cannot be resolved, an object without a signature). -/
theorem get_type_hints_total (env : Hints.Env) (o : Obj) (exh : Bool) : ∃ r, getTypeHints env o exh = .ok r := by
  simp only [getTypeHints]
  split
  · simp only [hintsFromSignature]
    split
    · exact ⟨_, rfl⟩
    · rename_i hs; exact absurd hs (signature_never_recurses env o)
    · exact ⟨_, rfl⟩
  · exact ⟨_, rfl⟩

/-- … and for a TypedDict without a resolvable hint the answer is `{}` whatever `exhaustive` says. -/
theorem typeddict_without_hints_empty (env : Hints.Env) (c : ClassDesc) (exh : Bool) (hk : isTypedDict c.kind = true)
    (he : baseHints env (.cls c) = []) : getTypeHints env (.cls c) exh = .ok [] := by
  obtain ⟨ps, hs, hps⟩ := typeddict_signature_total env c hk
  cases exh
  · simp [getTypeHints, he]
  · simp [getTypeHints, he, hintsFromSignature, hs, hps he]

/-! ### (g) the binder resolves a postponed annotation where the callable was defined -/

theorem bindItems_congr (f g : PAnn → Except TErr (Option Hint)) : ∀ (d : Dict PAnn),
    (∀ p ∈ d, f p.2 = g p.2) → bindItems f d = bindItems g d := by
  intro d
  induction d with
  | nil => intro _; rfl
  | cons p d ih =>
    intro h
    have h1 := h p (List.mem_cons_self)
    have h2 := ih (fun q hq => h q (List.mem_cons_of_mem _ hq))
    simp only [bindItems, h1, h2]

/-- what a parameter is converted to, as a function of its annotation and of the module of the CALLABLE only -/
def ownTarget (env : Hints.Env) (module : Str) : PAnn → Except TErr (Option Hint)
  | .missing => .ok none
  | .text s => match resolve [modDict env module, env.builtins] (Naming.stripQual module s) with
    | .ok h => .ok (some h)
    | .error e => .error e
  | .obj h => match evalRef env h with
    | .ok v => .ok (some v)
    | .error e => .error e

theorem bindTarget_bindAnn (env : Hints.Env) (caller module : Str) (a : PAnn) :
    bindTarget env caller (bindAnn module a) = ownTarget env module a := by
  cases a with
  | missing => rfl
  | text s => rfl
  | obj h => rfl

theorem bindItems_map (env : Hints.Env) (caller module : Str) : ∀ (ps : List Param),
    bindItems (bindTarget env caller) (ps.map (bindParamAnn module)) = bindItems (ownTarget env module) (ps.map paramAnn) := by
  intro ps
  induction ps with
  | nil => rfl
  | cons p ps ih => simp only [List.map_cons, bindItems, bindParamAnn, paramAnn, bindTarget_bindAnn, ih]

/-- (g) `param_annotation_module`: the type `bind` converts each parameter to is determined by the signature of the callable
    and the namespace of the callable's OWN module — a string annotation `s` is looked up (after `refs.forwardref` removed a
    qualifier naming that module) in `sys.modules[obj.__module__]`, then builtins; the module binding it (`caller`) is irrelevant. -/
theorem param_annotation_module (env : Hints.Env) (caller : Str) (o : Obj) (ps : List Param)
    (hs : signatureOf env o = .ok ps) :
    bindTargets env caller o = bindItems (ownTarget env (objModule o)) (ps.map paramAnn)
      ∧ bindAnnotations env o = .ok (ps.map (bindParamAnn (objModule o))) := by
  simp only [bindTargets, bindAnnotations, hs, bindItems_map, and_self]

theorem bind_caller_irrelevant (env : Hints.Env) (c1 c2 : Str) (o : Obj) :
    bindTargets env c1 o = bindTargets env c2 o := by
  cases hs : signatureOf env o with
  | ok ps => rw [(param_annotation_module env c1 o ps hs).1, (param_annotation_module env c2 o ps hs).1]
  | error e => simp [bindTargets, bindAnnotations, hs]

/-- a string annotation of a parameter: the reference the unmarshaller is asked for carries the callable's module -/
theorem param_annotation_reference (env : Hints.Env) (o : Obj) (ps : List Param) (p : Param) (s : Str)
    (hs : signatureOf env o = .ok ps) (hp : p ∈ ps) (ha : p.ann = .text s) :
    ∃ d, bindAnnotations env o = .ok d ∧ (p.name, PAnn.obj (.fwd (Naming.stripQual (objModule o) s) (objModule o))) ∈ d := by
  refine ⟨_, (param_annotation_module env [] o ps hs).2, ?_⟩
  exact List.mem_map.mpr ⟨p, hp, by simp [bindParamAnn, bindAnn, ha, Naming.forwardrefOfText]⟩

theorem tupleParams_spec : ∀ (hs : List Hint) (i j : Nat),
    (tupleParams i hs)[j]? = hs[j]?.map (fun h => { name := argName (i + j), kind := .posOnly, ann := .obj h, dflt := .none }) := by
  intro hs
  induction hs with
  | nil => intro i j; simp [tupleParams]
  | cons h hs ih =>
    intro i j
    cases j with
    | zero => simp [tupleParams]
    | succ j => simp only [tupleParams, List.getElem?_cons_succ, ih (i + 1) j]; congr 2; funext _; congr 2; omega

theorem tupleParams_length : ∀ (hs : List Hint) (i : Nat), (tupleParams i hs).length = hs.length := by
  intro hs
  induction hs with
  | nil => intro i; rfl
  | cons h hs ih => intro i; simp [tupleParams, ih]

/-- (f) `tuple_signature_spec`: without arguments or with a trailing `...` ONE `*args` parameter annotated with the first
    argument (`Any` when there is none); otherwise one positional-only parameter `arg<i>` per argument, annotated with it. -/
theorem tuple_signature_spec (args : List Hint) (variadic : Bool) :
    ((args = [] ∨ variadic = true) →
        tupleSignature args variadic = [{ name := argsName, kind := .varPos, ann := .obj (firstOrAny args), dflt := .none }])
    ∧ ((args ≠ [] ∧ variadic = false) →
        (tupleSignature args variadic).length = args.length
          ∧ ∀ j, (tupleSignature args variadic)[j]? =
              args[j]?.map (fun h => ({ name := argName j, kind := .posOnly, ann := .obj h, dflt := .none } : Param))) := by
  constructor
  · rintro (h | h)
    · subst h; simp [tupleSignature]
    · subst h; simp [tupleSignature]
  · rintro ⟨h1, h2⟩
    have : (args.isEmpty || variadic) = false := by
      cases args with
      | nil => exact absurd rfl h1
      | cons _ _ => simp [h2]
    simp only [tupleSignature, this]
    refine ⟨tupleParams_length args 0, fun j => ?_⟩
    have := tupleParams_spec args 0 j
    simpa using this

/-! ### the statements are not vacuous: concrete descriptions, and the seeded regressions as counter-models -/
section Examples

def ma : Str := ['m', 'a']
def mb : Str := ['m', 'b']
def sMoney : Str := ['M', 'o', 'n', 'e', 'y']
def sMissing : Str := ['M', 'i', 's', 's', 'i', 'n', 'g']
def sInt : Str := ['i', 'n', 't']
def sStr : Str := ['s', 't', 'r']
def sKw : Str := ['K', 'W', '_', 'O', 'N', 'L', 'Y']
def nM : Str := ['m']
def nK : Str := ['k']
def nU : Str := ['_']
def nExtra : Str := ['e', 'x', 't', 'r', 'a']
def nAttr : Str := ['a', 't', 't', 'r']
def nX : Str := ['x']
def nY : Str := ['y']
def nA : Str := ['a']
def nB : Str := ['b']
def nItems : Str := ['i', 't', 'e', 'm', 's']

/-- two modules binding `Money` to different classes (1 in `ma`, 2 in `mb`), both importing `KW_ONLY`; `Missing` is bound nowhere -/
def env : Hints.Env :=
  { mods := [(ma, [(sMoney, .val (.ty 1)), (sKw, .val .kwOnly)]), (mb, [(sMoney, .val (.ty 2)), (sKw, .val .kwOnly)])],
    builtins := [(sInt, .val (.ty 10)), (sStr, .val (.ty 11))] }

/-- `@dataclass class Base: m: Money; _: KW_ONLY; k: int = 0` in `ma` (postponed annotations) -/
def base : ClassEntry :=
  { id := 1, module := ma, anns := [(nM, .name sMoney), (nU, .name sKw), (nK, .name sInt)],
    ctor := some [{ name := nM, ann := .text sMoney }, { name := nK, kind := .kwOnly, ann := .text sInt, dflt := .value }] }

/-- `class D(ma.Base): extra: 'Money'` in `mb`, no `__init__` of its own -/
def derived : ClassEntry := { id := 2, module := mb, anns := [(nExtra, .name sMoney)] }

def D : ClassDesc := { kind := .dataclass, mro := [derived, base] }

example : wf (.cls D) = true := by decide
example : declaring nM D.mro = some (base, .name sMoney) := by decide

/-- the inherited field keeps the type of ITS module, the own field that of the derived module; `KW_ONLY` is gone -/
example : getTypeHints env (.cls D) false = .ok [(nM, .ty 1), (nK, .ty 10), (nExtra, .ty 2)] := by decide

/-- `hints_mro_modules_needed` (seed C05h): evaluating every class of the MRO in the module of the DERIVED class gives the
    inherited field the other `Money`. -/
theorem hints_mro_modules_needed :
    getTypeHintsC05h env (.cls D) false = .ok [(nM, .ty 2), (nK, .ty 10), (nExtra, .ty 2)]
      ∧ getTypeHintsC05h env (.cls D) false ≠ getTypeHints env (.cls D) false := by decide

/-- What CPython 3.12 does for TypedDicts (followed by the model, reported in the evidence): `class TB(ma.TA): extra: 'Money'`
    in `mb` — a TypedDict's `__annotations__` is FLATTENED into the derived class with `ForwardRef('Money', module='ma')`,
    which `ForwardRef._evaluate` looks up in the locals (the module of the class being walked, `mb`) first: the inherited key
    gets the `Money` of the derived module.  `declaring` is then the derived class, so `hints_mro_modules` does not speak about it. -/
def TB : ClassDesc :=
  { kind := .typedDict true (some [nM, nExtra]) [],
    mro := [{ id := 3, module := mb, anns := [(nM, .ref sMoney ma), (nExtra, .ref sMoney mb)] }] }

theorem typeddict_flattening_resolves_in_derived_module :
    getTypeHints env (.cls TB) false = .ok [(nM, .ty 2), (nExtra, .ty 2)] := by decide

/-- `class P: x: Missing; def __init__(self, y: int)` in `ma` -/
def P : ClassDesc :=
  { mro := [{ id := 4, module := ma, anns := [(nX, .name sMissing)], ctor := some [{ name := nY, ann := .text sInt }] }] }

example : wf (.cls P) = true := by decide
example : getTypeHints env (.cls P) false = .ok [] := by decide
example : getTypeHints env (.cls P) true = .ok [(nY, .fwd sInt ma)] := by decide

/-- `non_exhaustive_never_signature_needed` (seed C18g): falling back on NameError whatever `exhaustive` says hands out the
    constructor parameter `y`, which no class of the MRO annotates. -/
theorem non_exhaustive_never_signature_needed :
    getTypeHintsC18g env (.cls P) false = .ok [(nY, .fwd sInt ma)] ∧ nY ∉ annotatedNames (.cls P) := by decide

/-- `class B: def __init__(self, a: int)`, `class S(B): def __init__(self, b: str)` (annotated on `__init__` only) -/
def eB : ClassEntry := { id := 5, module := ma, ctor := some [{ name := nA, ann := .obj (.ty 10) }] }
def eS : ClassEntry := { id := 6, module := ma, ctor := some [{ name := nB, ann := .obj (.ty 11) }] }
def B : Obj := .cls { mro := [eB] }
def S : Obj := .cls { mro := [eS, eB] }

example : wf S = true := by decide
example : signatureOf env S = .ok [{ name := nB, ann := .obj (.ty 11) }] := by decide

/-- the memoised functions, base first and subclass first: pointwise (an instance of `hints_stateless`) -/
example : runSeq (cachedStep (signatureOf env) classId) [] [B, S, B] = [B, S, B].map (signatureOf env) := by decide
example : runSeq (cachedStep (cachedTypeHintsValue env) classId) [] [S, B, S] = [S, B, S].map (cachedTypeHintsValue env) := by decide

/-- `hints_stateless_needed` (seed C12h): with the signature left on the class as `__signature__`, the subclass asked AFTER its
    base answers with the base's parameters; asked first it answers correctly — the result depends on the history. -/
theorem hints_stateless_needed :
    runSeq (c12hStep env) [] [B, S] ≠ [B, S].map (signatureOf env)
      ∧ runSeq (c12hStep env) [] [S, B] = [S, B].map (signatureOf env)
      ∧ runSeq (c12hStep env) [] [B, S] = [.ok [{ name := nA, ann := .obj (.ty 10) }], .ok [{ name := nA, ann := .obj (.ty 10) }]] := by
  decide

/-- the hypothesis of `cached_sequence_pointwise` is needed (the theme of seed C09h): the same class asked before and after
    `Missing` gets bound in its module — the memo keeps serving the first answer. -/
def envLater : Hints.Env := { env with mods := [(ma, [(sMoney, .val (.ty 1)), (sMissing, .val (.ty 7))]), (mb, [(sMoney, .val (.ty 2))])] }

theorem cache_needs_fixed_namespace :
    runSeq (cachedStep (fun (p : Hints.Env × Obj) => getTypeHints p.1 p.2 true) (fun p => classId p.2)) [] [(env, .cls P), (envLater, .cls P)]
      = [.ok [(nY, .fwd sInt ma)], .ok [(nY, .fwd sInt ma)]]
    ∧ getTypeHints envLater (.cls P) true = .ok [(nX, .ty 7)] := by decide

/-- `T = collections.namedtuple("T", "a b", defaults=[1])`: no annotation anywhere -/
def T : ClassDesc :=
  { kind := .namedTuple,
    mro := [{ id := 7, module := ma, ctor := some [{ name := nA }, { name := nB, dflt := .value }] }, { id := 8, module := ['b'] }],
    fallback := none }

example : wf (.cls T) = true := by decide
example : signatureOf env (.cls T) = .ok [{ name := nA }, { name := nB, dflt := .value }] := by decide
example : getTypeHints env (.cls T) true = .ok [(nA, .any), (nB, .any)] := by decide

/-- `namedtuple_keeps_signature_needed` (seed C15h): asking `istypedtuple` instead of `isnamedtuple` gives the hint-less named
    tuple the fake `(*args: Any)` — its field names are lost. -/
theorem namedtuple_keeps_signature_needed :
    signatureOfC15h env (.cls T) = .ok [{ name := argsName, kind := .varPos, ann := .obj .any }]
      ∧ signatureOfC15h env (.cls T) ≠ signatureOf env (.cls T) := by decide

/-- `class K: attr: float; def __init__(self, attr: str)` (annotations evaluated; `float` = 12, `str` = 11) -/
def K : ClassDesc :=
  { mro := [{ id := 9, module := ma, anns := [(nAttr, .obj (.ty 12))], ctor := some [{ name := nAttr, ann := .obj (.ty 11) }] }] }

example : wf (.cls K) = true := by decide

/-- who answers what: `get_type_hints(K)` speaks about the ATTRIBUTE, `signature(K)` about the PARAMETER -/
example : getTypeHints env (.cls K) true = .ok [(nAttr, .ty 12)] := by decide
example : paramAnnotations env (.cls K) = .ok [(nAttr, .obj (.ty 11))] := by decide

/-- `callable_params_by_own_annotation_needed` (seed C10g): taking a parameter's annotation from `cached_type_hints(obj)` when
    it has the name converts the argument `attr` as a `float`. -/
theorem callable_params_by_own_annotation_needed :
    paramAnnotationsC10g env (.cls K) = .ok [(nAttr, .obj (.ty 12))]
      ∧ paramAnnotationsC10g env (.cls K) ≠ paramAnnotations env (.cls K) := by decide

/-- a callable instance of `class F: attr: float; def __call__(self, attr: str, z=1)`: the same collision -/
def F : Obj :=
  .inst { mro := [{ id := 10, module := ma, anns := [(nAttr, .obj (.ty 12))] }] }
    (some [{ name := nAttr, ann := .obj (.ty 11) }, { name := ['z'], dflt := .value }])

example : wf F = true := by decide
example : getTypeHints env F true = .ok [(nAttr, .ty 12)] := by decide
example : paramAnnotations env F = .ok [(nAttr, .obj (.ty 11)), (['z'], .missing)] := by decide
example : paramAnnotationsC10g env F ≠ paramAnnotations env F := by decide

/-- `class TN(TypedDict): a: int; b: NotRequired[int]` (total, required keys = {a}); `class TP(TypedDict, total=False): a: Required[int];
    b: int` (required keys = {a}); `class TI(TypedDict): items: int; x: int` (a key named like a method of `dict`) -/
def TN : ClassDesc :=
  { kind := .typedDict true (some [nA]) [], mro := [{ id := 11, module := ma, anns := [(nA, .obj (.ty 10)), (nB, .obj (.ty 10))] }] }
def TP : ClassDesc :=
  { kind := .typedDict false (some [nA]) [], mro := [{ id := 15, module := ma, anns := [(nA, .obj (.ty 10)), (nB, .obj (.ty 10))] }] }
def TI : ClassDesc :=
  { kind := .typedDict true (some [nItems, nX]) [nItems],
    mro := [{ id := 12, module := ma, anns := [(nItems, .obj (.ty 10)), (nX, .obj (.ty 10))] }] }

example : wf (.cls TN) = true ∧ wf (.cls TP) = true ∧ wf (.cls TI) = true := by decide

/-- required by the key's own declaration, under both totalities; no attribute of `dict` as a default -/
example : signatureOf env (.cls TN) = .ok [{ name := nA, kind := .kwOnly, ann := .obj (.ty 10) },
                                            { name := nB, kind := .kwOnly, ann := .obj (.ty 10), dflt := .ellipsis }] := by decide
example : signatureOf env (.cls TP) = .ok [{ name := nA, kind := .kwOnly, ann := .obj (.ty 10) },
                                            { name := nB, kind := .kwOnly, ann := .obj (.ty 10), dflt := .ellipsis }] := by decide
example : signatureOf env (.cls TI) = .ok [{ name := nItems, kind := .kwOnly, ann := .obj (.ty 10) },
                                            { name := nX, kind := .kwOnly, ann := .obj (.ty 10) }] := by decide

/-- `typeddict_signature_spec_needed` (the code before 629e6a2): `__total__` alone calls the `NotRequired` key `b` required and the
    `Required` key `a` of a `total=False` class optional; a key named `items` gets the method `dict.items` as its default —
    each against the clause "required iff in `__required_keys__`" of `typeddict_signature_spec`. -/
theorem typeddict_signature_spec_needed :
    signatureOfPre629e6a2 env (.cls TN) = .ok [{ name := nA, kind := .kwOnly, ann := .obj (.ty 10) },
                                                { name := nB, kind := .kwOnly, ann := .obj (.ty 10) }]
      ∧ signatureOfPre629e6a2 env (.cls TP) = .ok [{ name := nA, kind := .kwOnly, ann := .obj (.ty 10), dflt := .ellipsis },
                                                    { name := nB, kind := .kwOnly, ann := .obj (.ty 10), dflt := .ellipsis }]
      ∧ signatureOfPre629e6a2 env (.cls TI) = .ok [{ name := nItems, kind := .kwOnly, ann := .obj (.ty 10), dflt := .value },
                                                    { name := nX, kind := .kwOnly, ann := .obj (.ty 10) }]
      ∧ signatureOfPre629e6a2 env (.cls TN) ≠ signatureOf env (.cls TN)
      ∧ signatureOfPre629e6a2 env (.cls TP) ≠ signatureOf env (.cls TP)
      ∧ signatureOfPre629e6a2 env (.cls TI) ≠ signatureOf env (.cls TI) := by decide

/-- `class E(TypedDict): pass`, and a TypedDict whose only key cannot be evaluated -/
def E : ClassDesc := { kind := .typedDict true (some []) [], mro := [{ id := 13, module := ma }] }
def TBad : ClassDesc := { kind := .typedDict true (some [nA]) [], mro := [{ id := 14, module := ma, anns := [(nA, .ref sMissing ma)] }] }

example : wf (.cls E) = true ∧ wf (.cls TBad) = true := by decide
example : signatureOf env (.cls E) = .ok [] ∧ getTypeHints env (.cls E) true = .ok [] ∧ getTypeHints env (.cls TBad) true = .ok []
    ∧ signatureOf env (.cls TBad) = .ok [] := by decide

/-- `get_type_hints_total_needed` (the code before 87eadd9): for the empty TypedDict and for the one without a resolvable hint
    `signature` and the exhaustive `get_type_hints` never return (RecursionError) — `get_type_hints_total` /
    `signature_never_recurses` fail for that implementation. -/
theorem get_type_hints_total_needed :
    signatureOfPre87eadd9 env (.cls E) = .error .recursion
      ∧ getTypeHintsPre87eadd9 env (.cls E) true = .error .recursion
      ∧ getTypeHintsPre87eadd9 env (.cls TBad) true = .error .recursion
      ∧ getTypeHintsPre87eadd9 env (.cls TBad) false = .ok [] := by decide

/-- a class with `__total__` but without `__required_keys__` (`class X(dict): __total__ = False; a: int`) -/
example : signatureOf env (.cls { kind := .typedDict false none [], mro := [{ id := 16, module := ma, anns := [(nA, .obj (.ty 10))] }] })
    = .ok [{ name := nA, kind := .kwOnly, ann := .obj (.ty 10), dflt := .ellipsis }] := by decide

/-- a function of `ma` with postponed annotations `def g(m: Money, q: ma.Money, n: int, z=1)`: the binder converts `m` and `q`
    to the `Money` of `ma` (the qualifier `ma.` is removed by `refs.forwardref`), whoever binds it -/
def g : FuncDesc :=
  { module := ma, anns := [(nM, .name sMoney)],
    params := [{ name := nM, ann := .text sMoney }, { name := ['q'], ann := .text (ma ++ ['.'] ++ sMoney) },
               { name := ['n'], ann := .text sInt }, { name := ['z'], dflt := .value }] }

example : wf (.func g) = true := by decide
example : bindAnnotations env (.func g) = .ok [(nM, .obj (.fwd sMoney ma)), (['q'], .obj (.fwd sMoney ma)), (['n'], .obj (.fwd sInt ma)),
                                                (['z'], .missing)] := by decide
example : bindTargets env mb (.func g) = .ok [(nM, some (.ty 1)), (['q'], some (.ty 1)), (['n'], some (.ty 10)), (['z'], none)] := by decide
example : bindTargets env ['_', '_', 'm', 'a', 'i', 'n', '_', '_'] (.func g) = bindTargets env mb (.func g) := by decide

/-- `def g2(m: Money)` in `ma`, postponed -/
def g2 : FuncDesc := { module := ma, anns := [(nM, .name sMoney)], params := [{ name := nM, ann := .text sMoney }] }

/-- `param_annotation_module_needed` (the code before f5b21b1): the bare string reaches `unmarshaller(..)`, which resolves it in the
    module of the caller — bound from `mb` the parameter is converted to the OTHER `Money`, bound from a module that does not bind the
    name the binding fails with NameError; and since `_get_binding` is memoised per callable, whoever binds first decides for everybody. -/
theorem param_annotation_module_needed :
    bindTargetsPreF5b21b1 env mb (.func g2) = .ok [(nM, some (.ty 2))]
      ∧ bindTargetsPreF5b21b1 env ['_', '_', 'm', 'a', 'i', 'n', '_', '_'] (.func g2) = .error (.eval .nameError)
      ∧ bindTargets env mb (.func g2) = .ok [(nM, some (.ty 1))]
      ∧ runSeq (cachedStep (fun (p : Str × Obj) => bindTargetsPreF5b21b1 env p.1 p.2) (fun _ => 0)) [] [(mb, .func g2), (ma, .func g2)]
          = [.ok [(nM, some (.ty 2))], .ok [(nM, some (.ty 2))]]
      ∧ runSeq (cachedStep (fun (p : Str × Obj) => bindTargetsPreF5b21b1 env p.1 p.2) (fun _ => 0)) [] [(ma, .func g2), (mb, .func g2)]
          = [.ok [(nM, some (.ty 1))], .ok [(nM, some (.ty 1))]] :=
  ⟨by decide, by decide, by decide, by decide, by decide⟩

/-- `tuple[int, str]`, `tuple[int, ...]`, `tuple` -/
example : signatureOf env (.tupleAlias ['b'] [.ty 10, .ty 11] false)
    = .ok [{ name := ['a', 'r', 'g', '0'], kind := .posOnly, ann := .obj (.ty 10) }, { name := ['a', 'r', 'g', '1'], kind := .posOnly, ann := .obj (.ty 11) }] := by
  decide
example : getTypeHints env (.tupleAlias ['b'] [.ty 10] true) true = .ok [(argsName, .ty 10)] := by decide
example : getTypeHints env (.tupleAlias ['b'] [.ty 10] true) false = .ok [] := by decide

/-- a function `def f(a: Money, b) -> int` in `mb` with postponed annotations, and the bound method view of it -/
def f : FuncDesc :=
  { module := mb, anns := [(nA, .name sMoney), (['r', 'e', 't', 'u', 'r', 'n'], .name sInt)],
    params := [{ name := nA, ann := .text sMoney }, { name := nB }] }

example : wf (.func f) = true := by decide
example : getTypeHints env (.func f) false = .ok [(nA, .ty 2), (['r', 'e', 't', 'u', 'r', 'n'], .ty 10)] := by decide
example : paramAnnotations env (.func f) = .ok [(nA, .text sMoney), (nB, .missing)] := by decide

end Examples

end Typelib.MemberHints
