/-
  C09 — The type graph is a complete dependency order with every cycle cut.

  Theorems about `Model/Graph.lean` (the loop of `typelib.graph.get_type_graph` over an abstract
  annotation graph + graphlib's insertion-ordered Kahn), over ALL finite annotation graphs.
-/
import TypelibModel.Model.Graph
namespace Typelib.C09
open Typelib.Graph

variable {g : TyGraph}

/-! ## 1. The inner loop (`expand`) -/

theorem expand_nil (vis : List Nat) : expand g vis [] = { vis := vis, preds := [], pushed := [] } := rfl

theorem expand_cons_ref {vis : List Nat} {v : Option Str} {c : Nat} {rest : List (Option Str × Nat)}
    (h : (seen g vis c && g.cuttable c) = true) :
    expand g vis ((v, c) :: rest) =
      { vis := (expand g vis rest).vis, preds := refNode g v c :: (expand g vis rest).preds,
        pushed := (expand g vis rest).pushed } := by
  simp [expand, h]

theorem expand_cons_plain {vis : List Nat} {v : Option Str} {c : Nat} {rest : List (Option Str × Nat)}
    (h : (seen g vis c && g.cuttable c) = false) :
    expand g vis ((v, c) :: rest) =
      { vis := (expand g (vis ++ [c, g.unw c]) rest).vis,
        preds := plainNode g v c (seen g vis c && !g.stdlib c) :: (expand g (vis ++ [c, g.unw c]) rest).preds,
        pushed := plainNode g v c (seen g vis c && !g.stdlib c) :: (expand g (vis ++ [c, g.unw c]) rest).pushed } := by
  simp [expand, h]

/-- `visited` only grows, at the end. -/
theorem expand_vis_append (vis : List Nat) (ks : List (Option Str × Nat)) :
    ∃ ext, (expand g vis ks).vis = vis ++ ext := by
  induction ks generalizing vis with
  | nil => exact ⟨[], by simp [expand_nil]⟩
  | cons k rest ih =>
    obtain ⟨v, c⟩ := k
    cases h : (seen g vis c && g.cuttable c) with
    | true => rw [expand_cons_ref h]; exact ih vis
    | false =>
      rw [expand_cons_plain h]
      obtain ⟨ext, he⟩ := ih (vis ++ [c, g.unw c])
      exact ⟨[c, g.unw c] ++ ext, by simp [he]⟩

theorem expand_vis_mono {vis : List Nat} {ks : List (Option Str × Nat)} {x : Nat} (hx : x ∈ vis) :
    x ∈ (expand g vis ks).vis := by
  obtain ⟨ext, he⟩ := expand_vis_append (g := g) vis ks
  rw [he]; exact List.mem_append_left _ hx

theorem seen_mono {vis vis' : List Nat} (h : ∀ x ∈ vis, x ∈ vis') {c : Nat} (hs : seen g vis c = true) :
    seen g vis' c = true := by
  simp only [seen, Bool.or_eq_true, List.contains_iff_mem] at hs ⊢
  rcases hs with hs | hs
  · exact Or.inl (h _ hs)
  · exact Or.inr (h _ hs)

def nodeKey (n : Node) : Option Str × Nat := (n.var, n.ty)

/-- One predecessor per member, in order, carrying the member's name and type. -/
theorem expand_preds_keys (vis : List Nat) (ks : List (Option Str × Nat)) :
    (expand g vis ks).preds.map nodeKey = ks := by
  induction ks generalizing vis with
  | nil => simp [expand_nil]
  | cons k rest ih =>
    obtain ⟨v, c⟩ := k
    cases h : (seen g vis c && g.cuttable c) with
    | true => rw [expand_cons_ref h]; simp [ih, nodeKey, refNode]
    | false => rw [expand_cons_plain h]; simp [ih, nodeKey, plainNode]

/-- What holds of every node the loop creates. -/
structure NodeOK (g : TyGraph) (n : Node) : Prop where
  ref_iff : n.isRef = (n.cyclic && g.cuttable n.ty)
  unwrapped_eq : n.unwrapped = if n.isRef && g.ucls n.ty then g.unw n.ty else if n.isRef then n.ty else g.unw n.ty
  flagged_nonstd : n.cyclic = true → g.stdlib n.ty = false

theorem refNode_ok {vis : List Nat} {v : Option Str} {c : Nat} (h : (seen g vis c && g.cuttable c) = true) :
    NodeOK g (refNode g v c) := by
  simp only [Bool.and_eq_true] at h
  have hc := h.2
  simp only [TyGraph.cuttable, Bool.and_eq_true, Bool.not_eq_true'] at hc
  refine ⟨by simp [refNode, h.2], ?_, fun _ => by simpa [refNode] using hc.2⟩
  simp only [refNode]
  cases g.ucls c <;> simp

theorem plainNode_ok {vis : List Nat} {v : Option Str} {c : Nat} (h : (seen g vis c && g.cuttable c) = false) :
    NodeOK g (plainNode g v c (seen g vis c && !g.stdlib c)) := by
  refine ⟨?_, by simp [plainNode], ?_⟩
  · simp only [plainNode]
    cases hs : seen g vis c <;> simp_all
  · simp only [plainNode, Bool.and_eq_true, Bool.not_eq_true']
    exact fun h => h.2

theorem expand_preds_ok (vis : List Nat) (ks : List (Option Str × Nat)) :
    ∀ n ∈ (expand g vis ks).preds, NodeOK g n := by
  induction ks generalizing vis with
  | nil => simp [expand_nil]
  | cons k rest ih =>
    obtain ⟨v, c⟩ := k
    cases h : (seen g vis c && g.cuttable c) with
    | true =>
      rw [expand_cons_ref h]
      intro n hn
      rcases List.mem_cons.1 hn with rfl | hn
      · exact refNode_ok h
      · exact ih vis n hn
    | false =>
      rw [expand_cons_plain h]
      intro n hn
      rcases List.mem_cons.1 hn with rfl | hn
      · exact plainNode_ok h
      · exact ih _ n hn

/-- Exactly the non-reference predecessors go onto the queue. -/
theorem expand_pushed_iff (vis : List Nat) (ks : List (Option Str × Nat)) (n : Node) :
    n ∈ (expand g vis ks).pushed ↔ n ∈ (expand g vis ks).preds ∧ n.isRef = false := by
  induction ks generalizing vis with
  | nil => simp [expand_nil]
  | cons k rest ih =>
    obtain ⟨v, c⟩ := k
    cases h : (seen g vis c && g.cuttable c) with
    | true =>
      rw [expand_cons_ref h]
      simp only [List.mem_cons, ih vis]
      constructor
      · rintro ⟨h1, h2⟩; exact ⟨Or.inr h1, h2⟩
      · rintro ⟨h1 | h1, h2⟩
        · subst h1; simp [refNode] at h2
        · exact ⟨h1, h2⟩
    | false =>
      rw [expand_cons_plain h]
      simp only [List.mem_cons, ih (vis ++ [c, g.unw c])]
      constructor
      · rintro (h1 | ⟨h1, h2⟩)
        · subst h1; exact ⟨Or.inl rfl, rfl⟩
        · exact ⟨Or.inr h1, h2⟩
      · rintro ⟨h1 | h1, h2⟩
        · exact Or.inl h1
        · exact Or.inr ⟨h1, h2⟩

theorem expand_pushed_vis (vis : List Nat) (ks : List (Option Str × Nat)) :
    ∀ n ∈ (expand g vis ks).pushed, n.ty ∈ (expand g vis ks).vis := by
  induction ks generalizing vis with
  | nil => simp [expand_nil]
  | cons k rest ih =>
    obtain ⟨v, c⟩ := k
    cases h : (seen g vis c && g.cuttable c) with
    | true => rw [expand_cons_ref h]; exact ih vis
    | false =>
      rw [expand_cons_plain h]
      intro n hn
      rcases List.mem_cons.1 hn with rfl | hn
      · exact expand_vis_mono (by simp [plainNode])
      · exact ih _ n hn

/-- After the loop over a parent's members every member counts as visited. -/
theorem expand_done (vis : List Nat) (ks : List (Option Str × Nat)) :
    ∀ c ∈ ks.map Prod.snd, seen g (expand g vis ks).vis c = true := by
  induction ks generalizing vis with
  | nil => simp
  | cons k rest ih =>
    obtain ⟨v, c⟩ := k
    intro c' hc'
    simp only [List.map_cons, List.mem_cons] at hc'
    cases h : (seen g vis c && g.cuttable c) with
    | true =>
      rw [expand_cons_ref h]
      rcases hc' with rfl | hc'
      · simp only [Bool.and_eq_true] at h
        exact seen_mono (fun x hx => expand_vis_mono hx) h.1
      · exact ih vis c' hc'
    | false =>
      rw [expand_cons_plain h]
      rcases hc' with rfl | hc'
      · have : c' ∈ (expand g (vis ++ [c', g.unw c']) rest).vis := expand_vis_mono (by simp)
        simp [seen, this]
      · exact ih _ c' hc'

/-! ## 2. The outer loop: a generic invariant principle -/

theorem run_inv (I : State → Prop)
    (hstep : ∀ s p rest, s.queue = p :: rest → I s → I (stepWith g s p rest)) :
    ∀ fuel s s', I s → run g fuel s = some s' → I s' ∧ s'.queue = [] := by
  intro fuel
  induction fuel with
  | zero =>
    intro s s' hI h
    simp only [run] at h
    split at h
    · next hq => cases h; exact ⟨hI, hq⟩
    · cases h
  | succ f ih =>
    intro s s' hI h
    simp only [run] at h
    split at h
    · next hq => cases h; exact ⟨hI, hq⟩
    · next p rest hq => exact ih _ _ (hstep s p rest hq hI) h

theorem build_some {root fuel : Nat} {adds : Adds} (h : build g root fuel = some adds) :
    ∃ s, run g fuel (init g root) = some s ∧ s.adds = adds := by
  simp only [build, Option.map_eq_some_iff] at h
  exact h

/-! ## 3. Structural invariant of the loop -/

@[simp] theorem stepWith_vis (s : State) (p : Node) (rest : List Node) :
    (stepWith g s p rest).vis = (expand g s.vis (g.kids p.ty)).vis := rfl
@[simp] theorem stepWith_queue (s : State) (p : Node) (rest : List Node) :
    (stepWith g s p rest).queue = rest ++ (expand g s.vis (g.kids p.ty)).pushed := rfl
@[simp] theorem stepWith_adds (s : State) (p : Node) (rest : List Node) :
    (stepWith g s p rest).adds = s.adds ++ [(p, (expand g s.vis (g.kids p.ty)).preds)] := rfl

/-- A node that has been put on the queue (now or earlier). -/
def Made (s : State) (m : Node) : Prop := m ∈ s.queue ∨ ∃ b ∈ s.adds, b.1 = m

theorem made_step {s : State} {p : Node} {rest : List Node} (hq : s.queue = p :: rest) {m : Node}
    (h : Made s m) : Made (stepWith g s p rest) m := by
  rcases h with h | ⟨b, hb, rfl⟩
  · rw [hq] at h
    rcases List.mem_cons.1 h with rfl | h
    · exact Or.inr ⟨(m, (expand g s.vis (g.kids m.ty)).preds), by simp, rfl⟩
    · exact Or.inl (by simp [h])
  · exact Or.inr ⟨b, by simp [hb], rfl⟩

theorem rootNode_ok (root : Nat) : NodeOK g (rootNode g root) :=
  ⟨by simp [rootNode, plainNode], by simp [rootNode, plainNode], by simp [rootNode, plainNode]⟩

structure InvA (g : TyGraph) (root : Nat) (s : State) : Prop where
  qPlain : ∀ q ∈ s.queue, q.isRef = false ∧ q.ty ∈ s.vis
  addShape : ∀ a ∈ s.adds, a.1.isRef = false ∧ a.2.map nodeKey = g.kids a.1.ty ∧ ∀ c ∈ a.2, NodeOK g c
  expanded : ∀ a ∈ s.adds, ∀ c ∈ a.2, c.isRef = false → Made s c
  hasSucc : ∀ q, Made s q → q = rootNode g root ∨ ∃ a ∈ s.adds, q ∈ a.2
  rootIn : Made s (rootNode g root)

theorem invA_init (root : Nat) : InvA g root (init g root) where
  qPlain := by simp [init, rootNode, plainNode]
  addShape := by simp [init]
  expanded := by simp [init]
  hasSucc := by
    intro q h
    rcases h with h | ⟨b, hb, _⟩
    · left; simpa [init] using h
    · simp [init] at hb
  rootIn := Or.inl (by simp [init])

theorem invA_step {root : Nat} (s : State) (p : Node) (rest : List Node) (hq : s.queue = p :: rest)
    (h : InvA g root s) : InvA g root (stepWith g s p rest) where
  qPlain := by
    intro q hq'
    simp only [stepWith_queue, List.mem_append] at hq'
    rcases hq' with hq' | hq'
    · have := h.qPlain q (by rw [hq]; exact List.mem_cons_of_mem _ hq')
      exact ⟨this.1, expand_vis_mono this.2⟩
    · exact ⟨((expand_pushed_iff _ _ _).1 hq').2, expand_pushed_vis _ _ q hq'⟩
  addShape := by
    intro a ha
    simp only [stepWith_adds, List.mem_append, List.mem_singleton] at ha
    rcases ha with ha | rfl
    · exact h.addShape a ha
    · exact ⟨(h.qPlain p (by simp [hq])).1, expand_preds_keys _ _, expand_preds_ok _ _⟩
  expanded := by
    intro a ha c hc hr
    simp only [stepWith_adds, List.mem_append, List.mem_singleton] at ha
    rcases ha with ha | rfl
    · exact made_step hq (h.expanded a ha c hc hr)
    · exact Or.inl (by simp [(expand_pushed_iff _ _ _).2 ⟨hc, hr⟩])
  hasSucc := by
    intro q hm
    have old : Made s q → q = rootNode g root ∨ ∃ a ∈ (stepWith g s p rest).adds, q ∈ a.2 := by
      intro hm
      rcases h.hasSucc q hm with h1 | ⟨a, ha, hqa⟩
      · exact Or.inl h1
      · exact Or.inr ⟨a, by simp [ha], hqa⟩
    rcases hm with hm | ⟨b, hb, rfl⟩
    · simp only [stepWith_queue, List.mem_append] at hm
      rcases hm with hm | hm
      · exact old (Or.inl (by rw [hq]; exact List.mem_cons_of_mem _ hm))
      · exact Or.inr ⟨(p, _), by simp, ((expand_pushed_iff _ _ _).1 hm).1⟩
    · simp only [stepWith_adds, List.mem_append, List.mem_singleton] at hb
      rcases hb with hb | rfl
      · exact old (Or.inr ⟨b, hb, rfl⟩)
      · exact old (Or.inl (by simp [hq]))
  rootIn := made_step hq h.rootIn

/-- The structural facts about a finished build. -/
theorem build_invA {root fuel : Nat} {adds : Adds} (h : build g root fuel = some adds) :
    ∃ vis, InvA g root { vis := vis, queue := [], adds := adds } := by
  obtain ⟨s, hs, rfl⟩ := build_some h
  obtain ⟨hI, hq⟩ := run_inv (InvA g root) (fun s p rest => invA_step s p rest) fuel _ _ (invA_init root) hs
  refine ⟨s.vis, ?_⟩
  have : s = { vis := s.vis, queue := [], adds := s.adds } := by cases s; simp_all
  rw [← this]; exact hI

/-! ## 4. Topological orders of the produced `add` calls -/

/-- `c` was given as a predecessor of `p` in some `graph.add(p, …, c, …)`. -/
def Edge (adds : Adds) (c p : Node) : Prop := ∃ a ∈ adds, a.1 = p ∧ c ∈ a.2

def allNodes (adds : Adds) : List Node := adds.flatMap (fun a => a.1 :: a.2)

/-- graphlib's contract for `static_order()`: every node exactly once, predecessors first. -/
structure IsTopoOrder (adds : Adds) (o : List Node) : Prop where
  nodup : o.Nodup
  complete : ∀ n, n ∈ o ↔ n ∈ allNodes adds
  ordered : ∀ c p, Edge adds c p → o.idxOf c < o.idxOf p

theorem mem_allNodes {adds : Adds} {n : Node} :
    n ∈ allNodes adds ↔ (∃ a ∈ adds, a.1 = n) ∨ ∃ a ∈ adds, n ∈ a.2 := by
  simp only [allNodes, List.mem_flatMap, List.mem_cons]
  constructor
  · rintro ⟨a, ha, h | h⟩
    · exact Or.inl ⟨a, ha, h.symm⟩
    · exact Or.inr ⟨a, ha, h⟩
  · rintro (⟨a, ha, h⟩ | ⟨a, ha, h⟩)
    · exact ⟨a, ha, Or.inl h.symm⟩
    · exact ⟨a, ha, Or.inr h⟩

section Final
variable {root fuel : Nat} {adds : Adds} {o : List Node}

/-- Every node of a finished build that is not a forward reference was a parent of its own `add`. -/
theorem parent_of_plain (hb : build g root fuel = some adds) {n : Node} (hn : n ∈ allNodes adds)
    (hr : n.isRef = false) : ∃ a ∈ adds, a.1 = n := by
  obtain ⟨vis, hI⟩ := build_invA hb
  rcases mem_allNodes.1 hn with h | ⟨a, ha, hna⟩
  · exact h
  · rcases hI.expanded a ha n hna hr with h | h
    · simp at h
    · exact h

theorem all_nodeOK (hb : build g root fuel = some adds) {n : Node} (hn : n ∈ allNodes adds) : NodeOK g n := by
  obtain ⟨vis, hI⟩ := build_invA hb
  have hpred : ∀ a ∈ adds, n ∈ a.2 → NodeOK g n := fun a ha hna => (hI.addShape a ha).2.2 n hna
  rcases mem_allNodes.1 hn with ⟨a, ha, rfl⟩ | ⟨a, ha, hna⟩
  · rcases hI.hasSucc a.1 (Or.inr ⟨a, ha, rfl⟩) with h | ⟨b, hb', hab⟩
    · rw [h]; exact rootNode_ok root
    · exact hpred b hb' hab
  · exact hpred a ha hna

/-- (c1) No node occurs twice. -/
theorem order_nodup (_hb : build g root fuel = some adds) (ho : IsTopoOrder adds o) : o.Nodup := ho.nodup

theorem idxOf_lt_of_mem {o : List Node} {n : Node} (h : n ∈ o) : o.idxOf n < o.length :=
  List.idxOf_lt_length_iff.2 h

/-- (c2) The last node is the root. -/
theorem root_last (hb : build g root fuel = some adds) (ho : IsTopoOrder adds o) :
    o.getLast? = some (rootNode g root) := by
  obtain ⟨vis, hI⟩ := build_invA hb
  have hroot : rootNode g root ∈ o := by
    rcases hI.rootIn with h | ⟨b, hb', hbr⟩
    · simp at h
    · exact (ho.complete _).2 (mem_allNodes.2 (Or.inl ⟨b, hb', hbr⟩))
  cases hl : o.getLast? with
  | none => simp [List.getLast?_eq_none_iff] at hl; subst hl; simp at hroot
  | some x =>
    obtain ⟨ini, hini⟩ := List.getLast?_eq_some_iff.1 hl
    have hnd := ho.nodup
    rw [hini] at hnd
    have hx : x ∉ ini := by
      intro hx
      have := (List.nodup_append.1 hnd).2.2 x hx x (by simp)
      exact this rfl
    have hidx : o.idxOf x = ini.length := by
      rw [hini, List.idxOf_append]; simp [hx]
    have hxo : x ∈ o := by rw [hini]; simp
    -- x is not a predecessor of anything
    have nopred : ∀ a ∈ adds, x ∉ a.2 := by
      intro a ha hxa
      have h1 := ho.ordered x a.1 ⟨a, ha, rfl, hxa⟩
      have h2 : o.idxOf a.1 < o.length :=
        idxOf_lt_of_mem ((ho.complete _).2 (mem_allNodes.2 (Or.inl ⟨a, ha, rfl⟩)))
      have hlen : o.length = ini.length + 1 := by rw [hini]; simp
      omega
    rcases mem_allNodes.1 ((ho.complete _).1 hxo) with ⟨a, ha, rfl⟩ | ⟨a, ha, hxa⟩
    · rcases hI.hasSucc a.1 (Or.inr ⟨a, ha, rfl⟩) with h | ⟨b, hb', hab⟩
      · rw [h]
      · exact absurd hab (nopred b hb')
    · exact absurd hxa (nopred a ha)

/-- (c3) Every node is preceded by a node for each member its type directly contains
    (same member name, same member type). -/
theorem members_precede (hb : build g root fuel = some adds) (ho : IsTopoOrder adds o)
    {n : Node} (hn : n ∈ o) (hr : n.isRef = false) :
    ∀ vc ∈ g.kids n.ty, ∃ m ∈ o, m.var = vc.1 ∧ m.ty = vc.2 ∧ o.idxOf m < o.idxOf n := by
  obtain ⟨vis, hI⟩ := build_invA hb
  obtain ⟨a, ha, rfl⟩ := parent_of_plain hb ((ho.complete _).1 hn) hr
  intro vc hvc
  rw [← (hI.addShape a ha).2.1] at hvc
  obtain ⟨m, hm, rfl⟩ := List.mem_map.1 hvc
  exact ⟨m, (ho.complete _).2 (mem_allNodes.2 (Or.inr ⟨a, ha, hm⟩)), rfl, rfl, ho.ordered m a.1 ⟨a, ha, rfl, hm⟩⟩

/-- (c4a) A node is a forward reference exactly when it is flagged cyclic and its type is a named
    non-stdlib type; in particular every forward-reference node is flagged. -/
theorem ref_iff_flagged_named (hb : build g root fuel = some adds) (ho : IsTopoOrder adds o)
    {n : Node} (hn : n ∈ o) : n.isRef = (n.cyclic && g.cuttable n.ty) :=
  (all_nodeOK hb ((ho.complete _).1 hn)).ref_iff

theorem ref_flagged (hb : build g root fuel = some adds) (ho : IsTopoOrder adds o)
    {n : Node} (hn : n ∈ o) (hr : n.isRef = true) : n.cyclic = true := by
  have := ref_iff_flagged_named hb ho hn
  rw [hr] at this
  simp only [Bool.true_eq, Bool.and_eq_true] at this
  exact this.1

/-- (c5) Every deferred (flagged) node stands for a member of a later node: it carries that member's name
    and exactly that member's type; a forward reference's `unwrapped` names the unwrapped class if there
    is one and the referenced type otherwise. -/
theorem deferred_denotes (hb : build g root fuel = some adds) (ho : IsTopoOrder adds o)
    {n : Node} (hn : n ∈ o) (hc : n.cyclic = true) :
    (∃ p ∈ o, p.isRef = false ∧ (n.var, n.ty) ∈ g.kids p.ty ∧ o.idxOf n < o.idxOf p) ∧
    n.unwrapped = (if n.isRef && !g.ucls n.ty then n.ty else g.unw n.ty) := by
  obtain ⟨vis, hI⟩ := build_invA hb
  have hok := all_nodeOK hb ((ho.complete _).1 hn)
  constructor
  · have hpred : ∃ a ∈ adds, n ∈ a.2 := by
      rcases mem_allNodes.1 ((ho.complete _).1 hn) with ⟨a, ha, rfl⟩ | h
      · rcases hI.hasSucc a.1 (Or.inr ⟨a, ha, rfl⟩) with h | h
        · rw [h] at hc; simp [rootNode, plainNode] at hc
        · exact h
      · exact h
    obtain ⟨a, ha, hna⟩ := hpred
    refine ⟨a.1, (ho.complete _).2 (mem_allNodes.2 (Or.inl ⟨a, ha, rfl⟩)), (hI.addShape a ha).1, ?_,
      ho.ordered n a.1 ⟨a, ha, rfl, hna⟩⟩
    rw [← (hI.addShape a ha).2.1]
    exact List.mem_map.2 ⟨n, hna, rfl⟩
  · rw [hok.unwrapped_eq]
    cases n.isRef <;> cases g.ucls n.ty <;> simp

end Final

/-! ## 5. Well-formed annotation graphs -/

/-- What the theorems below need of an annotation graph; `rk` certifies that every cycle of the member
    relation passes through a named non-stdlib type. -/
structure WF (g : TyGraph) (rk : Nat → Nat) : Prop where
  rank : ∀ t, ∀ vc ∈ g.kids t, g.cuttable vc.2 = false → rk vc.2 < rk t
  stdClosed : ∀ t, g.stdlib t = true → ∀ vc ∈ g.kids t, g.stdlib vc.2 = true
  kidsUnw : ∀ t, g.kidTys (g.unw t) = g.kidTys t
  unwIdem : ∀ t, g.unw (g.unw t) = g.unw t

theorem out_of_range {t : Nat} (h : g.size ≤ t) : g.tys[t]? = none :=
  List.getElem?_eq_none (by simpa [TyGraph.size] using h)

/-- The decidable predicate `Graph.wf` implies `WF` with the computed rank. -/
theorem wf_sound (h : wf g = true) : WF g (rank g) := by
  simp only [wf, List.all_eq_true, List.mem_range, Bool.and_eq_true] at h
  refine ⟨?_, ?_, ?_, ?_⟩
  · intro t vc hvc hcut
    by_cases ht : t < g.size
    · have := (h t ht).1.1
      simp only [rankOKAt, List.all_eq_true, Bool.or_eq_true, decide_eq_true_eq] at this
      rcases this vc hvc with h1 | h1
      · rw [hcut] at h1; cases h1
      · exact h1
    · simp [TyGraph.kids, out_of_range (Nat.le_of_not_lt ht)] at hvc
  · intro t hst vc hvc
    by_cases ht : t < g.size
    · have := (h t ht).1.2
      simp only [stdlibClosedAt, hst, Bool.not_true, Bool.false_or, List.all_eq_true] at this
      exact this vc hvc
    · simp [TyGraph.kids, out_of_range (Nat.le_of_not_lt ht)] at hvc
  · intro t
    by_cases ht : t < g.size
    · have := (h t ht).2
      simp only [unwOKAt, Bool.and_eq_true, beq_iff_eq] at this
      exact this.1
    · simp [TyGraph.unw, out_of_range (Nat.le_of_not_lt ht)]
  · intro t
    by_cases ht : t < g.size
    · have := (h t ht).2
      simp only [unwOKAt, Bool.and_eq_true, beq_iff_eq] at this
      exact this.2
    · simp [TyGraph.unw, out_of_range (Nat.le_of_not_lt ht)]

theorem build_final {root fuel : Nat} {adds : Adds} (I : State → Prop) (hinit : I (init g root))
    (hstep : ∀ s p rest, s.queue = p :: rest → I s → I (stepWith g s p rest))
    (h : build g root fuel = some adds) : ∃ vis, I { vis := vis, queue := [], adds := adds } := by
  obtain ⟨s, hs, rfl⟩ := build_some h
  obtain ⟨hI, hq⟩ := run_inv I hstep fuel _ _ hinit hs
  refine ⟨s.vis, ?_⟩
  have : s = { vis := s.vis, queue := [], adds := s.adds } := by cases s; simp_all
  rw [← this]; exact hI

/-! ## 6. Flagged nodes are revisits -/

/-- `v` is (up to unwrapping) the type of an unflagged, walked node among `M`. -/
def Wit (g : TyGraph) (M : Node → Prop) (v : Nat) : Prop :=
  ∃ m, M m ∧ m.cyclic = false ∧ m.isRef = false ∧ g.unw m.ty = g.unw v

theorem wit_mono {M M' : Node → Prop} (h : ∀ m, M m → M' m) {v : Nat} : Wit g M v → Wit g M' v := by
  rintro ⟨m, hm, h1, h2, h3⟩; exact ⟨m, h m hm, h1, h2, h3⟩

theorem seen_wit (hidem : ∀ t, g.unw (g.unw t) = g.unw t) {M : Node → Prop} {vis : List Nat}
    (H : ∀ v ∈ vis, Wit g M v) {c : Nat} (hs : seen g vis c = true) : Wit g M c := by
  simp only [seen, Bool.or_eq_true, List.contains_iff_mem] at hs
  rcases hs with hs | hs
  · exact H c hs
  · obtain ⟨m, hm, h1, h2, h3⟩ := H _ hs
    exact ⟨m, hm, h1, h2, by rw [h3, hidem]⟩

theorem expand_wit (hidem : ∀ t, g.unw (g.unw t) = g.unw t) (ks : List (Option Str × Nat)) :
    ∀ (M : Node → Prop) (vis : List Nat), (∀ v ∈ vis, Wit g M v) →
      (∀ v ∈ (expand g vis ks).vis, Wit g (fun m => M m ∨ m ∈ (expand g vis ks).pushed) v) ∧
      (∀ n ∈ (expand g vis ks).preds, n.cyclic = true →
        Wit g (fun m => M m ∨ m ∈ (expand g vis ks).pushed) n.ty) := by
  induction ks with
  | nil =>
    intro M vis H
    simp only [expand_nil]
    exact ⟨fun v hv => wit_mono (fun m hm => Or.inl hm) (H v hv), by simp⟩
  | cons k rest ih =>
    obtain ⟨v, c⟩ := k
    intro M vis H
    cases h : (seen g vis c && g.cuttable c) with
    | true =>
      rw [expand_cons_ref h]
      obtain ⟨ih1, ih2⟩ := ih M vis H
      refine ⟨ih1, ?_⟩
      intro n hn hc
      rcases List.mem_cons.1 hn with rfl | hn
      · simp only [Bool.and_eq_true] at h
        exact wit_mono (fun m hm => Or.inl hm) (seen_wit hidem H h.1)
      · exact ih2 n hn hc
    | false =>
      rw [expand_cons_plain h]
      -- the new node, and what it adds to `visited`
      have hc : ∀ u, g.unw u = g.unw c →
          Wit g (fun m => M m ∨ m = plainNode g v c (seen g vis c && !g.stdlib c)) u := by
        intro u hu
        cases hs : seen g vis c with
        | true =>
          obtain ⟨m, hm, h1, h2, h3⟩ := seen_wit hidem H hs
          exact ⟨m, Or.inl hm, h1, h2, by rw [h3, hu]⟩
        | false =>
          exact ⟨_, Or.inr rfl, by simp [plainNode], by simp [plainNode], by simp [plainNode, hu]⟩
      have H' : ∀ u ∈ vis ++ [c, g.unw c],
          Wit g (fun m => M m ∨ m = plainNode g v c (seen g vis c && !g.stdlib c)) u := by
        intro u hu
        simp only [List.mem_append, List.mem_cons, List.not_mem_nil, or_false] at hu
        rcases hu with hu | rfl | rfl
        · exact wit_mono (fun m hm => Or.inl hm) (H u hu)
        · exact hc _ rfl
        · exact hc _ (hidem c)
      obtain ⟨ih1, ih2⟩ := ih _ _ H'
      have mono : ∀ m, ((M m ∨ m = plainNode g v c (seen g vis c && !g.stdlib c)) ∨
            m ∈ (expand g (vis ++ [c, g.unw c]) rest).pushed) →
          (M m ∨ m ∈ plainNode g v c (seen g vis c && !g.stdlib c) ::
            (expand g (vis ++ [c, g.unw c]) rest).pushed) := by
        rintro m ((h1 | h1) | h1)
        · exact Or.inl h1
        · exact Or.inr (by simp [h1])
        · exact Or.inr (List.mem_cons_of_mem _ h1)
      refine ⟨fun u hu => wit_mono mono (ih1 u hu), ?_⟩
      intro n hn hcy
      rcases List.mem_cons.1 hn with rfl | hn
      · simp only [plainNode, Bool.and_eq_true] at hcy
        exact wit_mono (fun m hm => Or.inl hm) (seen_wit hidem H hcy.1)
      · exact wit_mono mono (ih2 n hn hcy)

structure InvJ (g : TyGraph) (s : State) : Prop where
  visWit : ∀ v ∈ s.vis, Wit g (Made s) v
  flagWit : ∀ a ∈ s.adds, ∀ c ∈ a.2, c.cyclic = true → Wit g (Made s) c.ty

theorem invJ_init (hidem : ∀ t, g.unw (g.unw t) = g.unw t) (root : Nat) : InvJ g (init g root) where
  visWit := by
    intro v hv
    refine ⟨rootNode g root, Or.inl (by simp [init]), by simp [rootNode, plainNode],
      by simp [rootNode, plainNode], ?_⟩
    simp only [init, List.mem_cons, List.not_mem_nil, or_false] at hv
    rcases hv with rfl | rfl
    · rfl
    · simp [rootNode, plainNode, hidem]
  flagWit := by simp [init]

theorem invJ_step (hidem : ∀ t, g.unw (g.unw t) = g.unw t) (s : State) (p : Node) (rest : List Node)
    (hq : s.queue = p :: rest) (h : InvJ g s) : InvJ g (stepWith g s p rest) := by
  obtain ⟨e1, e2⟩ := expand_wit hidem (g.kids p.ty) (Made s) s.vis h.visWit
  have mono : ∀ m, (Made s m ∨ m ∈ (expand g s.vis (g.kids p.ty)).pushed) → Made (stepWith g s p rest) m := by
    rintro m (hm | hm)
    · exact made_step hq hm
    · exact Or.inl (by simp [hm])
  refine ⟨fun v hv => wit_mono mono (e1 v hv), ?_⟩
  intro a ha c hc hcy
  simp only [stepWith_adds, List.mem_append, List.mem_singleton] at ha
  rcases ha with ha | rfl
  · exact wit_mono (fun m hm => made_step hq hm) (h.flagWit a ha c hc hcy)
  · exact wit_mono mono (e2 c hc hcy)

section Final
variable {root fuel : Nat} {adds : Adds} {o : List Node} {rk : Nat → Nat}

/-- (c4b) Every node flagged cyclic is a revisit: the sequence contains an unflagged, walked node of the
    same type up to unwrapping (the occurrence that put the type into `visited`). -/
theorem flagged_revisit (hw : WF g rk) (hb : build g root fuel = some adds) (ho : IsTopoOrder adds o)
    {n : Node} (hn : n ∈ o) (hc : n.cyclic = true) :
    ∃ m ∈ o, m.cyclic = false ∧ m.isRef = false ∧ g.unw m.ty = g.unw n.ty := by
  obtain ⟨vis, hI⟩ := build_invA hb
  obtain ⟨vis', hJ⟩ := build_final (InvJ g) (invJ_init hw.unwIdem root)
    (fun s p rest => invJ_step hw.unwIdem s p rest) hb
  have hpred : ∃ a ∈ adds, n ∈ a.2 := by
    rcases mem_allNodes.1 ((ho.complete _).1 hn) with ⟨a, ha, rfl⟩ | h
    · rcases hI.hasSucc a.1 (Or.inr ⟨a, ha, rfl⟩) with h | h
      · rw [h] at hc; simp [rootNode, plainNode] at hc
      · exact h
    · exact h
  obtain ⟨a, ha, hna⟩ := hpred
  obtain ⟨m, hm, h1, h2, h3⟩ := hJ.flagWit a ha n hna hc
  rcases hm with hm | ⟨b, hb', rfl⟩
  · simp at hm
  · exact ⟨b.1, (ho.complete _).2 (mem_allNodes.2 (Or.inl ⟨b, hb', rfl⟩)), h1, h2, h3⟩

end Final

end Typelib.C09
