/-
  C09 — The type graph is a complete dependency order with every cycle cut.

  Theorems about `Model/Graph.lean` (the loop of `typelib.graph.get_type_graph` over an abstract
  annotation graph + graphlib's insertion-ordered Kahn), over ALL finite annotation graphs.
-/
import TypelibModel.Model.Graph
namespace Typelib.C09
open Typelib.Graph

variable {g : TyGraph}

/-! ## 1. The inner loop (`expand`) -/

theorem expand_nil (vis : List Nat) : expand g vis [] = { vis := vis, preds := [], pushed := [] } := rfl

theorem expand_cons_ref {vis : List Nat} {v : Option Str} {c : Nat} {rest : List (Option Str × Nat)}
    (h : (seen g vis c && g.cuttable c) = true) :
    expand g vis ((v, c) :: rest) =
      { vis := (expand g vis rest).vis, preds := refNode g v c :: (expand g vis rest).preds,
        pushed := (expand g vis rest).pushed } := by
  simp [expand, h]

theorem expand_cons_plain {vis : List Nat} {v : Option Str} {c : Nat} {rest : List (Option Str × Nat)}
    (h : (seen g vis c && g.cuttable c) = false) :
    expand g vis ((v, c) :: rest) =
      { vis := (expand g (vis ++ [c, g.unw c]) rest).vis,
        preds := plainNode g v c (seen g vis c && !g.stdlib c) :: (expand g (vis ++ [c, g.unw c]) rest).preds,
        pushed := plainNode g v c (seen g vis c && !g.stdlib c) :: (expand g (vis ++ [c, g.unw c]) rest).pushed } := by
  simp [expand, h]

/-- `visited` only grows, at the end. -/
theorem expand_vis_append (vis : List Nat) (ks : List (Option Str × Nat)) :
    ∃ ext, (expand g vis ks).vis = vis ++ ext := by
  induction ks generalizing vis with
  | nil => exact ⟨[], by simp [expand_nil]⟩
  | cons k rest ih =>
    obtain ⟨v, c⟩ := k
    cases h : (seen g vis c && g.cuttable c) with
    | true => rw [expand_cons_ref h]; exact ih vis
    | false =>
      rw [expand_cons_plain h]
      obtain ⟨ext, he⟩ := ih (vis ++ [c, g.unw c])
      exact ⟨[c, g.unw c] ++ ext, by simp [he]⟩

theorem expand_vis_mono {vis : List Nat} {ks : List (Option Str × Nat)} {x : Nat} (hx : x ∈ vis) :
    x ∈ (expand g vis ks).vis := by
  obtain ⟨ext, he⟩ := expand_vis_append (g := g) vis ks
  rw [he]; exact List.mem_append_left _ hx

theorem seen_mono {vis vis' : List Nat} (h : ∀ x ∈ vis, x ∈ vis') {c : Nat} (hs : seen g vis c = true) :
    seen g vis' c = true := by
  simp only [seen, Bool.or_eq_true, List.contains_iff_mem] at hs ⊢
  rcases hs with hs | hs
  · exact Or.inl (h _ hs)
  · exact Or.inr (h _ hs)

def nodeKey (n : Node) : Option Str × Nat := (n.var, n.ty)

/-- One predecessor per member, in order, carrying the member's name and type. -/
theorem expand_preds_keys (vis : List Nat) (ks : List (Option Str × Nat)) :
    (expand g vis ks).preds.map nodeKey = ks := by
  induction ks generalizing vis with
  | nil => simp [expand_nil]
  | cons k rest ih =>
    obtain ⟨v, c⟩ := k
    cases h : (seen g vis c && g.cuttable c) with
    | true => rw [expand_cons_ref h]; simp [ih, nodeKey, refNode]
    | false => rw [expand_cons_plain h]; simp [ih, nodeKey, plainNode]

/-- What holds of every node the loop creates. -/
structure NodeOK (g : TyGraph) (n : Node) : Prop where
  ref_iff : n.isRef = (n.cyclic && g.cuttable n.ty)
  unwrapped_eq : n.unwrapped = if n.isRef && g.ucls n.ty then g.unw n.ty else if n.isRef then n.ty else g.unw n.ty
  flagged_nonstd : n.cyclic = true → g.stdlib n.ty = false

theorem refNode_ok {vis : List Nat} {v : Option Str} {c : Nat} (h : (seen g vis c && g.cuttable c) = true) :
    NodeOK g (refNode g v c) := by
  simp only [Bool.and_eq_true] at h
  have hc := h.2
  simp only [TyGraph.cuttable, Bool.and_eq_true, Bool.not_eq_true'] at hc
  refine ⟨by simp [refNode, h.2], ?_, fun _ => by simpa [refNode] using hc.2⟩
  simp only [refNode]
  cases g.ucls c <;> simp

theorem plainNode_ok {vis : List Nat} {v : Option Str} {c : Nat} (h : (seen g vis c && g.cuttable c) = false) :
    NodeOK g (plainNode g v c (seen g vis c && !g.stdlib c)) := by
  refine ⟨?_, by simp [plainNode], ?_⟩
  · simp only [plainNode]
    cases hs : seen g vis c <;> simp_all
  · simp only [plainNode, Bool.and_eq_true, Bool.not_eq_true']
    exact fun h => h.2

theorem expand_preds_ok (vis : List Nat) (ks : List (Option Str × Nat)) :
    ∀ n ∈ (expand g vis ks).preds, NodeOK g n := by
  induction ks generalizing vis with
  | nil => simp [expand_nil]
  | cons k rest ih =>
    obtain ⟨v, c⟩ := k
    cases h : (seen g vis c && g.cuttable c) with
    | true =>
      rw [expand_cons_ref h]
      intro n hn
      rcases List.mem_cons.1 hn with rfl | hn
      · exact refNode_ok h
      · exact ih vis n hn
    | false =>
      rw [expand_cons_plain h]
      intro n hn
      rcases List.mem_cons.1 hn with rfl | hn
      · exact plainNode_ok h
      · exact ih _ n hn

/-- Exactly the non-reference predecessors go onto the queue. -/
theorem expand_pushed_iff (vis : List Nat) (ks : List (Option Str × Nat)) (n : Node) :
    n ∈ (expand g vis ks).pushed ↔ n ∈ (expand g vis ks).preds ∧ n.isRef = false := by
  induction ks generalizing vis with
  | nil => simp [expand_nil]
  | cons k rest ih =>
    obtain ⟨v, c⟩ := k
    cases h : (seen g vis c && g.cuttable c) with
    | true =>
      rw [expand_cons_ref h]
      simp only [List.mem_cons, ih vis]
      constructor
      · rintro ⟨h1, h2⟩; exact ⟨Or.inr h1, h2⟩
      · rintro ⟨h1 | h1, h2⟩
        · subst h1; simp [refNode] at h2
        · exact ⟨h1, h2⟩
    | false =>
      rw [expand_cons_plain h]
      simp only [List.mem_cons, ih (vis ++ [c, g.unw c])]
      constructor
      · rintro (h1 | ⟨h1, h2⟩)
        · subst h1; exact ⟨Or.inl rfl, rfl⟩
        · exact ⟨Or.inr h1, h2⟩
      · rintro ⟨h1 | h1, h2⟩
        · exact Or.inl h1
        · exact Or.inr ⟨h1, h2⟩

theorem expand_pushed_vis (vis : List Nat) (ks : List (Option Str × Nat)) :
    ∀ n ∈ (expand g vis ks).pushed, n.ty ∈ (expand g vis ks).vis := by
  induction ks generalizing vis with
  | nil => simp [expand_nil]
  | cons k rest ih =>
    obtain ⟨v, c⟩ := k
    cases h : (seen g vis c && g.cuttable c) with
    | true => rw [expand_cons_ref h]; exact ih vis
    | false =>
      rw [expand_cons_plain h]
      intro n hn
      rcases List.mem_cons.1 hn with rfl | hn
      · exact expand_vis_mono (by simp [plainNode])
      · exact ih _ n hn

/-- After the loop over a parent's members every member counts as visited. -/
theorem expand_done (vis : List Nat) (ks : List (Option Str × Nat)) :
    ∀ c ∈ ks.map Prod.snd, seen g (expand g vis ks).vis c = true := by
  induction ks generalizing vis with
  | nil => simp
  | cons k rest ih =>
    obtain ⟨v, c⟩ := k
    intro c' hc'
    simp only [List.map_cons, List.mem_cons] at hc'
    cases h : (seen g vis c && g.cuttable c) with
    | true =>
      rw [expand_cons_ref h]
      rcases hc' with rfl | hc'
      · simp only [Bool.and_eq_true] at h
        exact seen_mono (fun x hx => expand_vis_mono hx) h.1
      · exact ih vis c' hc'
    | false =>
      rw [expand_cons_plain h]
      rcases hc' with rfl | hc'
      · have : c' ∈ (expand g (vis ++ [c', g.unw c']) rest).vis := expand_vis_mono (by simp)
        simp [seen, this]
      · exact ih _ c' hc'

/-! ## 2. The outer loop: a generic invariant principle -/

theorem run_inv (I : State → Prop)
    (hstep : ∀ s p rest, s.queue = p :: rest → I s → I (stepWith g s p rest)) :
    ∀ fuel s s', I s → run g fuel s = some s' → I s' ∧ s'.queue = [] := by
  intro fuel
  induction fuel with
  | zero =>
    intro s s' hI h
    simp only [run] at h
    split at h
    · next hq => cases h; exact ⟨hI, hq⟩
    · cases h
  | succ f ih =>
    intro s s' hI h
    simp only [run] at h
    split at h
    · next hq => cases h; exact ⟨hI, hq⟩
    · next p rest hq => exact ih _ _ (hstep s p rest hq hI) h

theorem build_some {root fuel : Nat} {adds : Adds} (h : build g root fuel = some adds) :
    ∃ s, run g fuel (init g root) = some s ∧ s.adds = adds := by
  simp only [build, Option.map_eq_some_iff] at h
  exact h

end Typelib.C09
