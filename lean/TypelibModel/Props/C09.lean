/-
  C09 — The type graph is a complete dependency order with every cycle cut.

  Theorems about `Model/Graph.lean` (the loop of `typelib.graph.get_type_graph` over an abstract annotation
  graph + graphlib's insertion-ordered Kahn), over ALL finite annotation graphs (no bound on size).

  Hypothesis `WF g rk` (decidable form `Graph.wf g = true`, `wf_sound`): every cycle of the member relation passes
  through a named, or qualified (`ClassVar[C]` / `Final[C]`), non-stdlib type (rank certificate), members of stdlib types are stdlib types, `unwrap` is
  idempotent and a type has the member types of its unwrapped type.  The harness evaluates `Graph.wf` on the graph
  extracted from the real objects on every case.

    (a) build_terminates      fuel ≥ Graph.fuelBound g  ⇒  the loop finishes
        loop_diverges / loopG_not_wf        an anonymous self-containing type: not wf, the loop never finishes
    (b) edges_acyclic         no cycle among the edges handed to graphlib (CycleError impossible)
        stdClosed_needed      without "members of stdlib types are stdlib" a cycle arises (the shape of the
                              defects repaired by 612940b / f6f9920 in inspection.isstdlibtype)
    (c) for every topological order `o` of the produced edges (IsTopoOrder = graphlib's contract;
        checkTopo_sound: the certificate the driver evaluates on each sequence it reports):
        order_nodup, root_last, members_precede,
        ref_iff_flagged_named, ref_flagged, flagged_revisit      (deferred by a forward reference — in `type`, or for a
                                                                  qualified class in `unwrapped` only — ⇔ flagged ∧ cuttable;
                                                                  flagged ⇒ revisit of a type with an unflagged node)
        deferred_denotes                                          (a deferred node carries the name and the exact type
                                                                  id of a member of a later node; uref rule)
        qualified_needed      without the cut at qualified spellings (before 9671f4f) `class A: x: ClassVar[A]`
                              is not wf and the loop never finishes
    alias_root_same_graph     a NewType / value-alias root and the type it stands for give the same `add` calls up
                              to the root node's label
    leaf_root_single          a root without members (string-valued alias) is a single node

  Not proved here (assumption, compared exactly with graphlib on every harness case): that the model's Kahn order
  `staticOrder` is a topological order for EVERY input; it is certificate-checked (`checkTopo`) per case.
-/
import TypelibModel.Model.Graph
namespace Typelib.C09
open Typelib.Graph

variable {g : TyGraph}

/-! ## 1. The inner loop (`expand`) -/

theorem expand_nil (vis : List Nat) : expand g vis [] = { vis := vis, preds := [], pushed := [] } := rfl

theorem expand_cons_ref {vis : List Nat} {v : Option Str} {c : Nat} {rest : List (Option Str × Nat)}
    (h : (seen g vis c && g.cuttable c) = true) :
    expand g vis ((v, c) :: rest) =
      { vis := (expand g vis rest).vis, preds := refNode g v c :: (expand g vis rest).preds,
        pushed := (expand g vis rest).pushed } := by
  simp [expand, h]

theorem expand_cons_plain {vis : List Nat} {v : Option Str} {c : Nat} {rest : List (Option Str × Nat)}
    (h : (seen g vis c && g.cuttable c) = false) :
    expand g vis ((v, c) :: rest) =
      { vis := (expand g (vis ++ [c, g.unw c]) rest).vis,
        preds := plainNode g v c (seen g vis c && !g.stdlib c) :: (expand g (vis ++ [c, g.unw c]) rest).preds,
        pushed := plainNode g v c (seen g vis c && !g.stdlib c) :: (expand g (vis ++ [c, g.unw c]) rest).pushed } := by
  simp [expand, h]

/-- `visited` only grows, at the end. -/
theorem expand_vis_append (vis : List Nat) (ks : List (Option Str × Nat)) :
    ∃ ext, (expand g vis ks).vis = vis ++ ext := by
  induction ks generalizing vis with
  | nil => exact ⟨[], by simp [expand_nil]⟩
  | cons k rest ih =>
    obtain ⟨v, c⟩ := k
    cases h : (seen g vis c && g.cuttable c) with
    | true => rw [expand_cons_ref h]; exact ih vis
    | false =>
      rw [expand_cons_plain h]
      obtain ⟨ext, he⟩ := ih (vis ++ [c, g.unw c])
      exact ⟨[c, g.unw c] ++ ext, by simp [he]⟩

theorem expand_vis_mono {vis : List Nat} {ks : List (Option Str × Nat)} {x : Nat} (hx : x ∈ vis) :
    x ∈ (expand g vis ks).vis := by
  obtain ⟨ext, he⟩ := expand_vis_append (g := g) vis ks
  rw [he]; exact List.mem_append_left _ hx

theorem seen_mono {vis vis' : List Nat} (h : ∀ x ∈ vis, x ∈ vis') {c : Nat} (hs : seen g vis c = true) :
    seen g vis' c = true := by
  simp only [seen, Bool.or_eq_true, List.contains_iff_mem] at hs ⊢
  rcases hs with hs | hs
  · exact Or.inl (h _ hs)
  · exact Or.inr (h _ hs)

def nodeKey (n : Node) : Option Str × Nat := (n.var, n.ty)

/-- One predecessor per member, in order, carrying the member's name and type. -/
theorem expand_preds_keys (vis : List Nat) (ks : List (Option Str × Nat)) :
    (expand g vis ks).preds.map nodeKey = ks := by
  induction ks generalizing vis with
  | nil => simp [expand_nil]
  | cons k rest ih =>
    obtain ⟨v, c⟩ := k
    cases h : (seen g vis c && g.cuttable c) with
    | true => rw [expand_cons_ref h]; simp [ih, nodeKey, refNode]
    | false => rw [expand_cons_plain h]; simp [ih, nodeKey, plainNode]

/-- What holds of every node the loop creates. -/
structure NodeOK (g : TyGraph) (n : Node) : Prop where
  ref_iff : n.isRef = (n.cyclic && g.cuttable n.ty)
  qual_eq : n.qual = (n.isRef && g.qualified n.ty)
  unwrapped_eq : n.unwrapped = if n.isRef && !g.ucls n.ty && !n.qual then n.ty else g.unw n.ty
  flagged_nonstd : n.cyclic = true → g.stdlib n.ty = false

theorem refNode_ok {vis : List Nat} {v : Option Str} {c : Nat} (h : (seen g vis c && g.cuttable c) = true) :
    NodeOK g (refNode g v c) := by
  simp only [Bool.and_eq_true] at h
  have hc := h.2
  simp only [TyGraph.cuttable, Bool.and_eq_true, Bool.not_eq_true'] at hc
  refine ⟨by simp [refNode, h.2], by simp [refNode], ?_, fun _ => by simpa [refNode] using hc.2⟩
  simp only [refNode]
  by_cases hq : g.qualified c = true <;> by_cases hu : g.ucls c = true <;> simp [hq, hu]

theorem plainNode_ok {vis : List Nat} {v : Option Str} {c : Nat} (h : (seen g vis c && g.cuttable c) = false) :
    NodeOK g (plainNode g v c (seen g vis c && !g.stdlib c)) := by
  refine ⟨?_, by simp [plainNode], by simp [plainNode], ?_⟩
  · simp only [plainNode]
    cases hs : seen g vis c <;> simp_all
  · simp only [plainNode, Bool.and_eq_true, Bool.not_eq_true']
    exact fun h => h.2

theorem expand_preds_ok (vis : List Nat) (ks : List (Option Str × Nat)) :
    ∀ n ∈ (expand g vis ks).preds, NodeOK g n := by
  induction ks generalizing vis with
  | nil => simp [expand_nil]
  | cons k rest ih =>
    obtain ⟨v, c⟩ := k
    cases h : (seen g vis c && g.cuttable c) with
    | true =>
      rw [expand_cons_ref h]
      intro n hn
      rcases List.mem_cons.1 hn with rfl | hn
      · exact refNode_ok h
      · exact ih vis n hn
    | false =>
      rw [expand_cons_plain h]
      intro n hn
      rcases List.mem_cons.1 hn with rfl | hn
      · exact plainNode_ok h
      · exact ih _ n hn

/-- Exactly the non-reference predecessors go onto the queue. -/
theorem expand_pushed_iff (vis : List Nat) (ks : List (Option Str × Nat)) (n : Node) :
    n ∈ (expand g vis ks).pushed ↔ n ∈ (expand g vis ks).preds ∧ n.isRef = false := by
  induction ks generalizing vis with
  | nil => simp [expand_nil]
  | cons k rest ih =>
    obtain ⟨v, c⟩ := k
    cases h : (seen g vis c && g.cuttable c) with
    | true =>
      rw [expand_cons_ref h]
      simp only [List.mem_cons, ih vis]
      constructor
      · rintro ⟨h1, h2⟩; exact ⟨Or.inr h1, h2⟩
      · rintro ⟨h1 | h1, h2⟩
        · subst h1; simp [refNode] at h2
        · exact ⟨h1, h2⟩
    | false =>
      rw [expand_cons_plain h]
      simp only [List.mem_cons, ih (vis ++ [c, g.unw c])]
      constructor
      · rintro (h1 | ⟨h1, h2⟩)
        · subst h1; exact ⟨Or.inl rfl, rfl⟩
        · exact ⟨Or.inr h1, h2⟩
      · rintro ⟨h1 | h1, h2⟩
        · exact Or.inl h1
        · exact Or.inr ⟨h1, h2⟩

theorem expand_pushed_vis (vis : List Nat) (ks : List (Option Str × Nat)) :
    ∀ n ∈ (expand g vis ks).pushed, n.ty ∈ (expand g vis ks).vis := by
  induction ks generalizing vis with
  | nil => simp [expand_nil]
  | cons k rest ih =>
    obtain ⟨v, c⟩ := k
    cases h : (seen g vis c && g.cuttable c) with
    | true => rw [expand_cons_ref h]; exact ih vis
    | false =>
      rw [expand_cons_plain h]
      intro n hn
      rcases List.mem_cons.1 hn with rfl | hn
      · exact expand_vis_mono (by simp [plainNode])
      · exact ih _ n hn

/-- After the loop over a parent's members every member counts as visited. -/
theorem expand_done (vis : List Nat) (ks : List (Option Str × Nat)) :
    ∀ c ∈ ks.map Prod.snd, seen g (expand g vis ks).vis c = true := by
  induction ks generalizing vis with
  | nil => simp
  | cons k rest ih =>
    obtain ⟨v, c⟩ := k
    intro c' hc'
    simp only [List.map_cons, List.mem_cons] at hc'
    cases h : (seen g vis c && g.cuttable c) with
    | true =>
      rw [expand_cons_ref h]
      rcases hc' with rfl | hc'
      · simp only [Bool.and_eq_true] at h
        exact seen_mono (fun x hx => expand_vis_mono hx) h.1
      · exact ih vis c' hc'
    | false =>
      rw [expand_cons_plain h]
      rcases hc' with rfl | hc'
      · have : c' ∈ (expand g (vis ++ [c', g.unw c']) rest).vis := expand_vis_mono (by simp)
        simp [seen, this]
      · exact ih _ c' hc'

/-! ## 2. The outer loop: a generic invariant principle -/

theorem run_inv (I : State → Prop)
    (hstep : ∀ s p rest, s.queue = p :: rest → I s → I (stepWith g s p rest)) :
    ∀ fuel s s', I s → run g fuel s = some s' → I s' ∧ s'.queue = [] := by
  intro fuel
  induction fuel with
  | zero =>
    intro s s' hI h
    simp only [run] at h
    split at h
    · next hq => cases h; exact ⟨hI, hq⟩
    · cases h
  | succ f ih =>
    intro s s' hI h
    simp only [run] at h
    split at h
    · next hq => cases h; exact ⟨hI, hq⟩
    · next p rest hq => exact ih _ _ (hstep s p rest hq hI) h

theorem build_some {root fuel : Nat} {adds : Adds} (h : build g root fuel = some adds) :
    ∃ s, run g fuel (init g root) = some s ∧ s.adds = adds := by
  simp only [build, Option.map_eq_some_iff] at h
  exact h

/-! ## 3. Structural invariant of the loop -/

@[simp] theorem stepWith_vis (s : State) (p : Node) (rest : List Node) :
    (stepWith g s p rest).vis = (expand g s.vis (g.kids p.ty)).vis := rfl
@[simp] theorem stepWith_queue (s : State) (p : Node) (rest : List Node) :
    (stepWith g s p rest).queue = rest ++ (expand g s.vis (g.kids p.ty)).pushed := rfl
@[simp] theorem stepWith_adds (s : State) (p : Node) (rest : List Node) :
    (stepWith g s p rest).adds = s.adds ++ [(p, (expand g s.vis (g.kids p.ty)).preds)] := rfl

/-- A node that has been put on the queue (now or earlier). -/
def Made (s : State) (m : Node) : Prop := m ∈ s.queue ∨ ∃ b ∈ s.adds, b.1 = m

theorem made_step {s : State} {p : Node} {rest : List Node} (hq : s.queue = p :: rest) {m : Node}
    (h : Made s m) : Made (stepWith g s p rest) m := by
  rcases h with h | ⟨b, hb, rfl⟩
  · rw [hq] at h
    rcases List.mem_cons.1 h with rfl | h
    · exact Or.inr ⟨(m, (expand g s.vis (g.kids m.ty)).preds), by simp, rfl⟩
    · exact Or.inl (by simp [h])
  · exact Or.inr ⟨b, by simp [hb], rfl⟩

theorem rootNode_ok (root : Nat) : NodeOK g (rootNode g root) :=
  ⟨by simp [rootNode, plainNode], by simp [rootNode, plainNode], by simp [rootNode, plainNode],
    by simp [rootNode, plainNode]⟩

structure InvA (g : TyGraph) (root : Nat) (s : State) : Prop where
  qPlain : ∀ q ∈ s.queue, q.isRef = false ∧ q.ty ∈ s.vis
  addShape : ∀ a ∈ s.adds, a.1.isRef = false ∧ a.2.map nodeKey = g.kids a.1.ty ∧ ∀ c ∈ a.2, NodeOK g c
  expanded : ∀ a ∈ s.adds, ∀ c ∈ a.2, c.isRef = false → Made s c
  hasSucc : ∀ q, Made s q → q = rootNode g root ∨ ∃ a ∈ s.adds, q ∈ a.2
  rootIn : Made s (rootNode g root)

theorem invA_init (root : Nat) : InvA g root (init g root) where
  qPlain := by simp [init, rootNode, plainNode]
  addShape := by simp [init]
  expanded := by simp [init]
  hasSucc := by
    intro q h
    rcases h with h | ⟨b, hb, _⟩
    · left; simpa [init] using h
    · simp [init] at hb
  rootIn := Or.inl (by simp [init])

theorem invA_step {root : Nat} (s : State) (p : Node) (rest : List Node) (hq : s.queue = p :: rest)
    (h : InvA g root s) : InvA g root (stepWith g s p rest) where
  qPlain := by
    intro q hq'
    simp only [stepWith_queue, List.mem_append] at hq'
    rcases hq' with hq' | hq'
    · have := h.qPlain q (by rw [hq]; exact List.mem_cons_of_mem _ hq')
      exact ⟨this.1, expand_vis_mono this.2⟩
    · exact ⟨((expand_pushed_iff _ _ _).1 hq').2, expand_pushed_vis _ _ q hq'⟩
  addShape := by
    intro a ha
    simp only [stepWith_adds, List.mem_append, List.mem_singleton] at ha
    rcases ha with ha | rfl
    · exact h.addShape a ha
    · exact ⟨(h.qPlain p (by simp [hq])).1, expand_preds_keys _ _, expand_preds_ok _ _⟩
  expanded := by
    intro a ha c hc hr
    simp only [stepWith_adds, List.mem_append, List.mem_singleton] at ha
    rcases ha with ha | rfl
    · exact made_step hq (h.expanded a ha c hc hr)
    · exact Or.inl (by simp [(expand_pushed_iff _ _ _).2 ⟨hc, hr⟩])
  hasSucc := by
    intro q hm
    have old : Made s q → q = rootNode g root ∨ ∃ a ∈ (stepWith g s p rest).adds, q ∈ a.2 := by
      intro hm
      rcases h.hasSucc q hm with h1 | ⟨a, ha, hqa⟩
      · exact Or.inl h1
      · exact Or.inr ⟨a, by simp [ha], hqa⟩
    rcases hm with hm | ⟨b, hb, rfl⟩
    · simp only [stepWith_queue, List.mem_append] at hm
      rcases hm with hm | hm
      · exact old (Or.inl (by rw [hq]; exact List.mem_cons_of_mem _ hm))
      · exact Or.inr ⟨(p, _), by simp, ((expand_pushed_iff _ _ _).1 hm).1⟩
    · simp only [stepWith_adds, List.mem_append, List.mem_singleton] at hb
      rcases hb with hb | rfl
      · exact old (Or.inr ⟨b, hb, rfl⟩)
      · exact old (Or.inl (by simp [hq]))
  rootIn := made_step hq h.rootIn

/-- The structural facts about a finished build. -/
theorem build_invA {root fuel : Nat} {adds : Adds} (h : build g root fuel = some adds) :
    ∃ vis, InvA g root { vis := vis, queue := [], adds := adds } := by
  obtain ⟨s, hs, rfl⟩ := build_some h
  obtain ⟨hI, hq⟩ := run_inv (InvA g root) (fun s p rest => invA_step s p rest) fuel _ _ (invA_init root) hs
  refine ⟨s.vis, ?_⟩
  have : s = { vis := s.vis, queue := [], adds := s.adds } := by cases s; simp_all
  rw [← this]; exact hI

/-! ## 4. Topological orders of the produced `add` calls -/

/-- `c` was given as a predecessor of `p` in some `graph.add(p, …, c, …)`. -/
def Edge (adds : Adds) (c p : Node) : Prop := ∃ a ∈ adds, a.1 = p ∧ c ∈ a.2

def allNodes (adds : Adds) : List Node := adds.flatMap (fun a => a.1 :: a.2)

/-- graphlib's contract for `static_order()`: every node exactly once, predecessors first. -/
structure IsTopoOrder (adds : Adds) (o : List Node) : Prop where
  nodup : o.Nodup
  complete : ∀ n, n ∈ o ↔ n ∈ allNodes adds
  ordered : ∀ c p, Edge adds c p → o.idxOf c < o.idxOf p

theorem mem_allNodes {adds : Adds} {n : Node} :
    n ∈ allNodes adds ↔ (∃ a ∈ adds, a.1 = n) ∨ ∃ a ∈ adds, n ∈ a.2 := by
  simp only [allNodes, List.mem_flatMap, List.mem_cons]
  constructor
  · rintro ⟨a, ha, h | h⟩
    · exact Or.inl ⟨a, ha, h.symm⟩
    · exact Or.inr ⟨a, ha, h⟩
  · rintro (⟨a, ha, h⟩ | ⟨a, ha, h⟩)
    · exact ⟨a, ha, Or.inl h.symm⟩
    · exact ⟨a, ha, Or.inr h⟩

section Final
variable {root fuel : Nat} {adds : Adds} {o : List Node}

/-- Every node of a finished build that is not a forward reference was a parent of its own `add`. -/
theorem parent_of_plain (hb : build g root fuel = some adds) {n : Node} (hn : n ∈ allNodes adds)
    (hr : n.isRef = false) : ∃ a ∈ adds, a.1 = n := by
  obtain ⟨vis, hI⟩ := build_invA hb
  rcases mem_allNodes.1 hn with h | ⟨a, ha, hna⟩
  · exact h
  · rcases hI.expanded a ha n hna hr with h | h
    · simp at h
    · exact h

theorem all_nodeOK (hb : build g root fuel = some adds) {n : Node} (hn : n ∈ allNodes adds) : NodeOK g n := by
  obtain ⟨vis, hI⟩ := build_invA hb
  have hpred : ∀ a ∈ adds, n ∈ a.2 → NodeOK g n := fun a ha hna => (hI.addShape a ha).2.2 n hna
  rcases mem_allNodes.1 hn with ⟨a, ha, rfl⟩ | ⟨a, ha, hna⟩
  · rcases hI.hasSucc a.1 (Or.inr ⟨a, ha, rfl⟩) with h | ⟨b, hb', hab⟩
    · rw [h]; exact rootNode_ok root
    · exact hpred b hb' hab
  · exact hpred a ha hna

/-- (c1) No node occurs twice. -/
theorem order_nodup (_hb : build g root fuel = some adds) (ho : IsTopoOrder adds o) : o.Nodup := ho.nodup

theorem idxOf_lt_of_mem {o : List Node} {n : Node} (h : n ∈ o) : o.idxOf n < o.length :=
  List.idxOf_lt_length_iff.2 h

/-- (c2) The last node is the root. -/
theorem root_last (hb : build g root fuel = some adds) (ho : IsTopoOrder adds o) :
    o.getLast? = some (rootNode g root) := by
  obtain ⟨vis, hI⟩ := build_invA hb
  have hroot : rootNode g root ∈ o := by
    rcases hI.rootIn with h | ⟨b, hb', hbr⟩
    · simp at h
    · exact (ho.complete _).2 (mem_allNodes.2 (Or.inl ⟨b, hb', hbr⟩))
  cases hl : o.getLast? with
  | none => simp [List.getLast?_eq_none_iff] at hl; subst hl; simp at hroot
  | some x =>
    obtain ⟨ini, hini⟩ := List.getLast?_eq_some_iff.1 hl
    have hnd := ho.nodup
    rw [hini] at hnd
    have hx : x ∉ ini := by
      intro hx
      have := (List.nodup_append.1 hnd).2.2 x hx x (by simp)
      exact this rfl
    have hidx : o.idxOf x = ini.length := by
      rw [hini, List.idxOf_append]; simp [hx]
    have hxo : x ∈ o := by rw [hini]; simp
    -- x is not a predecessor of anything
    have nopred : ∀ a ∈ adds, x ∉ a.2 := by
      intro a ha hxa
      have h1 := ho.ordered x a.1 ⟨a, ha, rfl, hxa⟩
      have h2 : o.idxOf a.1 < o.length :=
        idxOf_lt_of_mem ((ho.complete _).2 (mem_allNodes.2 (Or.inl ⟨a, ha, rfl⟩)))
      have hlen : o.length = ini.length + 1 := by rw [hini]; simp
      omega
    rcases mem_allNodes.1 ((ho.complete _).1 hxo) with ⟨a, ha, rfl⟩ | ⟨a, ha, hxa⟩
    · rcases hI.hasSucc a.1 (Or.inr ⟨a, ha, rfl⟩) with h | ⟨b, hb', hab⟩
      · rw [h]
      · exact absurd hab (nopred b hb')
    · exact absurd hxa (nopred a ha)

/-- (c3) Every node is preceded by a node for each member its type directly contains
    (same member name, same member type). -/
theorem members_precede (hb : build g root fuel = some adds) (ho : IsTopoOrder adds o)
    {n : Node} (hn : n ∈ o) (hr : n.isRef = false) :
    ∀ vc ∈ g.kids n.ty, ∃ m ∈ o, m.var = vc.1 ∧ m.ty = vc.2 ∧ o.idxOf m < o.idxOf n := by
  obtain ⟨vis, hI⟩ := build_invA hb
  obtain ⟨a, ha, rfl⟩ := parent_of_plain hb ((ho.complete _).1 hn) hr
  intro vc hvc
  rw [← (hI.addShape a ha).2.1] at hvc
  obtain ⟨m, hm, rfl⟩ := List.mem_map.1 hvc
  exact ⟨m, (ho.complete _).2 (mem_allNodes.2 (Or.inr ⟨a, ha, hm⟩)), rfl, rfl, ho.ordered m a.1 ⟨a, ha, rfl, hm⟩⟩

/-- (c4a) A node is a forward reference exactly when it is flagged cyclic and its type is a named
    non-stdlib type; in particular every forward-reference node is flagged. -/
theorem ref_iff_flagged_named (hb : build g root fuel = some adds) (ho : IsTopoOrder adds o)
    {n : Node} (hn : n ∈ o) : n.isRef = (n.cyclic && g.cuttable n.ty) :=
  (all_nodeOK hb ((ho.complete _).1 hn)).ref_iff

theorem ref_flagged (hb : build g root fuel = some adds) (ho : IsTopoOrder adds o)
    {n : Node} (hn : n ∈ o) (hr : n.isRef = true) : n.cyclic = true := by
  have := ref_iff_flagged_named hb ho hn
  rw [hr] at this
  simp only [Bool.true_eq, Bool.and_eq_true] at this
  exact this.1

/-- (c5) Every deferred (flagged) node stands for a member of a later node: it carries that member's name
    and exactly that member's type.  The `unwrapped` of a node deferred by reference names the unwrapped class if
    there is one (always, for a qualified spelling `ClassVar[C]` / `Final[C]`, which keeps the annotation itself as
    its `type`: `qual`) and the referenced type otherwise. -/
theorem deferred_denotes (hb : build g root fuel = some adds) (ho : IsTopoOrder adds o)
    {n : Node} (hn : n ∈ o) (hc : n.cyclic = true) :
    (∃ p ∈ o, p.isRef = false ∧ (n.var, n.ty) ∈ g.kids p.ty ∧ o.idxOf n < o.idxOf p) ∧
    n.unwrapped = (if n.isRef && !g.ucls n.ty && !n.qual then n.ty else g.unw n.ty) ∧
    n.qual = (n.isRef && g.qualified n.ty) := by
  obtain ⟨vis, hI⟩ := build_invA hb
  have hok := all_nodeOK hb ((ho.complete _).1 hn)
  constructor
  · have hpred : ∃ a ∈ adds, n ∈ a.2 := by
      rcases mem_allNodes.1 ((ho.complete _).1 hn) with ⟨a, ha, rfl⟩ | h
      · rcases hI.hasSucc a.1 (Or.inr ⟨a, ha, rfl⟩) with h | h
        · rw [h] at hc; simp [rootNode, plainNode] at hc
        · exact h
      · exact h
    obtain ⟨a, ha, hna⟩ := hpred
    refine ⟨a.1, (ho.complete _).2 (mem_allNodes.2 (Or.inl ⟨a, ha, rfl⟩)), (hI.addShape a ha).1, ?_,
      ho.ordered n a.1 ⟨a, ha, rfl, hna⟩⟩
    rw [← (hI.addShape a ha).2.1]
    exact List.mem_map.2 ⟨n, hna, rfl⟩
  · exact ⟨hok.unwrapped_eq, hok.qual_eq⟩

end Final

/-! ## 5. Well-formed annotation graphs -/

/-- The two types have the same member types (as sets). -/
def SameKids (g : TyGraph) (a b : Nat) : Prop := ∀ c, c ∈ g.kidTys a ↔ c ∈ g.kidTys b

theorem SameKids.refl (a : Nat) : SameKids g a a := fun _ => Iff.rfl
theorem SameKids.symm {a b : Nat} (h : SameKids g a b) : SameKids g b a := fun c => (h c).symm
theorem SameKids.trans {a b c : Nat} (h1 : SameKids g a b) (h2 : SameKids g b c) : SameKids g a c :=
  fun x => (h1 x).trans (h2 x)

/-- What the theorems below need of an annotation graph; `rk` certifies that every cycle of the member
    relation passes through a named non-stdlib type. -/
structure WF (g : TyGraph) (rk : Nat → Nat) : Prop where
  rank : ∀ t, ∀ vc ∈ g.kids t, g.cuttable vc.2 = false → rk vc.2 < rk t
  stdClosed : ∀ t, g.stdlib t = true → ∀ vc ∈ g.kids t, g.stdlib vc.2 = true
  kidsUnw : ∀ t, SameKids g (g.unw t) t
  unwIdem : ∀ t, g.unw (g.unw t) = g.unw t

theorem out_of_range {t : Nat} (h : g.size ≤ t) : g.tys[t]? = none :=
  List.getElem?_eq_none (by simpa [TyGraph.size] using h)

/-- The decidable predicate `Graph.wf` implies `WF` with the computed rank. -/
theorem wf_sound (h : wf g = true) : WF g (rank g) := by
  simp only [wf, List.all_eq_true, List.mem_range, Bool.and_eq_true] at h
  refine ⟨?_, ?_, ?_, ?_⟩
  · intro t vc hvc hcut
    by_cases ht : t < g.size
    · have := (h t ht).1.1
      simp only [rankOKAt, List.all_eq_true, Bool.or_eq_true, decide_eq_true_eq] at this
      rcases this vc hvc with h1 | h1
      · rw [hcut] at h1; cases h1
      · exact h1
    · simp [TyGraph.kids, out_of_range (Nat.le_of_not_lt ht)] at hvc
  · intro t hst vc hvc
    by_cases ht : t < g.size
    · have := (h t ht).1.2
      simp only [stdlibClosedAt, hst, Bool.not_true, Bool.false_or, List.all_eq_true] at this
      exact this vc hvc
    · simp [TyGraph.kids, out_of_range (Nat.le_of_not_lt ht)] at hvc
  · intro t
    by_cases ht : t < g.size
    · have := (h t ht).2
      simp only [unwOKAt, subKids, Bool.and_eq_true, beq_iff_eq, List.all_eq_true, List.contains_iff_mem] at this
      exact fun c => ⟨this.1.1 c, this.1.2 c⟩
    · have : g.unw t = t := by simp [TyGraph.unw, out_of_range (Nat.le_of_not_lt ht)]
      rw [this]; exact SameKids.refl t
  · intro t
    by_cases ht : t < g.size
    · have := (h t ht).2
      simp only [unwOKAt, Bool.and_eq_true, beq_iff_eq] at this
      exact this.2
    · simp [TyGraph.unw, out_of_range (Nat.le_of_not_lt ht)]

theorem build_final {root fuel : Nat} {adds : Adds} (I : State → Prop) (hinit : I (init g root))
    (hstep : ∀ s p rest, s.queue = p :: rest → I s → I (stepWith g s p rest))
    (h : build g root fuel = some adds) : ∃ vis, I { vis := vis, queue := [], adds := adds } := by
  obtain ⟨s, hs, rfl⟩ := build_some h
  obtain ⟨hI, hq⟩ := run_inv I hstep fuel _ _ hinit hs
  refine ⟨s.vis, ?_⟩
  have : s = { vis := s.vis, queue := [], adds := s.adds } := by cases s; simp_all
  rw [← this]; exact hI

/-! ## 6. Flagged nodes are revisits -/

/-- `v` is (up to unwrapping) the type of an unflagged, walked node among `M`. -/
def Wit (g : TyGraph) (M : Node → Prop) (v : Nat) : Prop :=
  ∃ m, M m ∧ m.cyclic = false ∧ m.isRef = false ∧ g.unw m.ty = g.unw v

theorem wit_mono {M M' : Node → Prop} (h : ∀ m, M m → M' m) {v : Nat} : Wit g M v → Wit g M' v := by
  rintro ⟨m, hm, h1, h2, h3⟩; exact ⟨m, h m hm, h1, h2, h3⟩

theorem seen_wit (hidem : ∀ t, g.unw (g.unw t) = g.unw t) {M : Node → Prop} {vis : List Nat}
    (H : ∀ v ∈ vis, Wit g M v) {c : Nat} (hs : seen g vis c = true) : Wit g M c := by
  simp only [seen, Bool.or_eq_true, List.contains_iff_mem] at hs
  rcases hs with hs | hs
  · exact H c hs
  · obtain ⟨m, hm, h1, h2, h3⟩ := H _ hs
    exact ⟨m, hm, h1, h2, by rw [h3, hidem]⟩

theorem expand_wit (hidem : ∀ t, g.unw (g.unw t) = g.unw t) (ks : List (Option Str × Nat)) :
    ∀ (M : Node → Prop) (vis : List Nat), (∀ v ∈ vis, Wit g M v) →
      (∀ v ∈ (expand g vis ks).vis, Wit g (fun m => M m ∨ m ∈ (expand g vis ks).pushed) v) ∧
      (∀ n ∈ (expand g vis ks).preds, n.cyclic = true →
        Wit g (fun m => M m ∨ m ∈ (expand g vis ks).pushed) n.ty) := by
  induction ks with
  | nil =>
    intro M vis H
    simp only [expand_nil]
    exact ⟨fun v hv => wit_mono (fun m hm => Or.inl hm) (H v hv), by simp⟩
  | cons k rest ih =>
    obtain ⟨v, c⟩ := k
    intro M vis H
    cases h : (seen g vis c && g.cuttable c) with
    | true =>
      rw [expand_cons_ref h]
      obtain ⟨ih1, ih2⟩ := ih M vis H
      refine ⟨ih1, ?_⟩
      intro n hn hc
      rcases List.mem_cons.1 hn with rfl | hn
      · simp only [Bool.and_eq_true] at h
        exact wit_mono (fun m hm => Or.inl hm) (seen_wit hidem H h.1)
      · exact ih2 n hn hc
    | false =>
      rw [expand_cons_plain h]
      -- the new node, and what it adds to `visited`
      have hc : ∀ u, g.unw u = g.unw c →
          Wit g (fun m => M m ∨ m = plainNode g v c (seen g vis c && !g.stdlib c)) u := by
        intro u hu
        cases hs : seen g vis c with
        | true =>
          obtain ⟨m, hm, h1, h2, h3⟩ := seen_wit hidem H hs
          exact ⟨m, Or.inl hm, h1, h2, by rw [h3, hu]⟩
        | false =>
          exact ⟨_, Or.inr rfl, by simp [plainNode], by simp [plainNode], by simp [plainNode, hu]⟩
      have H' : ∀ u ∈ vis ++ [c, g.unw c],
          Wit g (fun m => M m ∨ m = plainNode g v c (seen g vis c && !g.stdlib c)) u := by
        intro u hu
        simp only [List.mem_append, List.mem_cons, List.not_mem_nil, or_false] at hu
        rcases hu with hu | rfl | rfl
        · exact wit_mono (fun m hm => Or.inl hm) (H u hu)
        · exact hc _ rfl
        · exact hc _ (hidem c)
      obtain ⟨ih1, ih2⟩ := ih _ _ H'
      have mono : ∀ m, ((M m ∨ m = plainNode g v c (seen g vis c && !g.stdlib c)) ∨
            m ∈ (expand g (vis ++ [c, g.unw c]) rest).pushed) →
          (M m ∨ m ∈ plainNode g v c (seen g vis c && !g.stdlib c) ::
            (expand g (vis ++ [c, g.unw c]) rest).pushed) := by
        rintro m ((h1 | h1) | h1)
        · exact Or.inl h1
        · exact Or.inr (by simp [h1])
        · exact Or.inr (List.mem_cons_of_mem _ h1)
      refine ⟨fun u hu => wit_mono mono (ih1 u hu), ?_⟩
      intro n hn hcy
      rcases List.mem_cons.1 hn with rfl | hn
      · simp only [plainNode, Bool.and_eq_true] at hcy
        exact wit_mono (fun m hm => Or.inl hm) (seen_wit hidem H hcy.1)
      · exact wit_mono mono (ih2 n hn hcy)

structure InvJ (g : TyGraph) (s : State) : Prop where
  visWit : ∀ v ∈ s.vis, Wit g (Made s) v
  flagWit : ∀ a ∈ s.adds, ∀ c ∈ a.2, c.cyclic = true → Wit g (Made s) c.ty

theorem invJ_init (hidem : ∀ t, g.unw (g.unw t) = g.unw t) (root : Nat) : InvJ g (init g root) where
  visWit := by
    intro v hv
    refine ⟨rootNode g root, Or.inl (by simp [init]), by simp [rootNode, plainNode],
      by simp [rootNode, plainNode], ?_⟩
    simp only [init, List.mem_cons, List.not_mem_nil, or_false] at hv
    rcases hv with rfl | rfl
    · rfl
    · simp [rootNode, plainNode, hidem]
  flagWit := by simp [init]

theorem invJ_step (hidem : ∀ t, g.unw (g.unw t) = g.unw t) (s : State) (p : Node) (rest : List Node)
    (hq : s.queue = p :: rest) (h : InvJ g s) : InvJ g (stepWith g s p rest) := by
  obtain ⟨e1, e2⟩ := expand_wit hidem (g.kids p.ty) (Made s) s.vis h.visWit
  have mono : ∀ m, (Made s m ∨ m ∈ (expand g s.vis (g.kids p.ty)).pushed) → Made (stepWith g s p rest) m := by
    rintro m (hm | hm)
    · exact made_step hq hm
    · exact Or.inl (by simp [hm])
  refine ⟨fun v hv => wit_mono mono (e1 v hv), ?_⟩
  intro a ha c hc hcy
  simp only [stepWith_adds, List.mem_append, List.mem_singleton] at ha
  rcases ha with ha | rfl
  · exact wit_mono (fun m hm => made_step hq hm) (h.flagWit a ha c hc hcy)
  · exact wit_mono mono (e2 c hc hcy)

section Final
variable {root fuel : Nat} {adds : Adds} {o : List Node} {rk : Nat → Nat}

/-- (c4b) Every node flagged cyclic is a revisit: the sequence contains an unflagged, walked node of the
    same type up to unwrapping (the occurrence that put the type into `visited`). -/
theorem flagged_revisit (hw : WF g rk) (hb : build g root fuel = some adds) (ho : IsTopoOrder adds o)
    {n : Node} (hn : n ∈ o) (hc : n.cyclic = true) :
    ∃ m ∈ o, m.cyclic = false ∧ m.isRef = false ∧ g.unw m.ty = g.unw n.ty := by
  obtain ⟨vis, hI⟩ := build_invA hb
  obtain ⟨vis', hJ⟩ := build_final (InvJ g) (invJ_init hw.unwIdem root)
    (fun s p rest => invJ_step hw.unwIdem s p rest) hb
  have hpred : ∃ a ∈ adds, n ∈ a.2 := by
    rcases mem_allNodes.1 ((ho.complete _).1 hn) with ⟨a, ha, rfl⟩ | h
    · rcases hI.hasSucc a.1 (Or.inr ⟨a, ha, rfl⟩) with h | h
      · rw [h] at hc; simp [rootNode, plainNode] at hc
      · exact h
    · exact h
  obtain ⟨a, ha, hna⟩ := hpred
  obtain ⟨m, hm, h1, h2, h3⟩ := hJ.flagWit a ha n hna hc
  rcases hm with hm | ⟨b, hb', rfl⟩
  · simp at hm
  · exact ⟨b.1, (ho.complete _).2 (mem_allNodes.2 (Or.inl ⟨b, hb', rfl⟩)), h1, h2, h3⟩

end Final

/-! ## 7. The produced edge relation has no cycle -/

/-- All members of `t` count as visited. -/
def Done (g : TyGraph) (vis : List Nat) (t : Nat) : Prop := ∀ c ∈ g.kidTys t, seen g vis c = true

theorem done_congr {vis : List Nat} {t t' : Nat} (h : SameKids g t t') (hd : Done g vis t) :
    Done g vis t' := by
  intro c hc; exact hd c ((h c).2 hc)

theorem done_mono {vis vis' : List Nat} (h : ∀ x ∈ vis, x ∈ vis') {t : Nat} (hd : Done g vis t) :
    Done g vis' t := fun c hc => seen_mono h (hd c hc)

/-- Every flagged queue entry has all its members visited already, or an entry with the same members
    stands before it (`E`: the entries before this part of the queue). -/
def QInv (g : TyGraph) (vis : List Nat) : (Node → Prop) → List Node → Prop
  | _, [] => True
  | E, q :: rest =>
    (q.cyclic = true → Done g vis q.ty ∨ ∃ q', E q' ∧ SameKids g q'.ty q.ty)
      ∧ QInv g vis (fun x => E x ∨ x = q) rest

theorem qinv_mono {vis : List Nat} (l : List Node) : ∀ {E E' : Node → Prop}, (∀ x, E x → E' x) →
    QInv g vis E l → QInv g vis E' l := by
  induction l with
  | nil => intro _ _ _ _; trivial
  | cons q rest ih =>
    intro E E' hE h
    obtain ⟨h1, h2⟩ := h
    refine ⟨fun hc => ?_, ih (fun x hx => hx.imp (hE x) id) h2⟩
    rcases h1 hc with d | ⟨q', hq', hk⟩
    · exact Or.inl d
    · exact Or.inr ⟨q', hE _ hq', hk⟩

theorem qinv_drop {vis V : List Nat} {p : Node} (hmono : ∀ x ∈ vis, x ∈ V) (hp : Done g V p.ty)
    (l : List Node) : ∀ E : Node → Prop, QInv g vis (fun x => E x ∨ x = p) l → QInv g V E l := by
  induction l with
  | nil => intro _ _; trivial
  | cons q rest ih =>
    intro E h
    obtain ⟨h1, h2⟩ := h
    refine ⟨fun hc => ?_, ih (fun x => E x ∨ x = q) (qinv_mono rest ?_ h2)⟩
    · rcases h1 hc with d | ⟨q', hq' | rfl, hk⟩
      · exact Or.inl (done_mono hmono d)
      · exact Or.inr ⟨q', hq', hk⟩
      · exact Or.inl (done_congr hk hp)
    · rintro x ((h | h) | h)
      · exact Or.inl (Or.inl h)
      · exact Or.inr h
      · exact Or.inl (Or.inr h)

theorem qinv_append {V : List Nat} (l1 l2 : List Node) : ∀ E : Node → Prop, QInv g V E l1 →
    QInv g V (fun x => E x ∨ x ∈ l1) l2 → QInv g V E (l1 ++ l2) := by
  induction l1 with
  | nil =>
    intro E _ h2
    exact qinv_mono l2 (fun x hx => hx.elim id (fun h => by simp at h)) h2
  | cons q l1 ih =>
    intro E h1 h2
    obtain ⟨h1a, h1b⟩ := h1
    refine ⟨h1a, ih _ h1b (qinv_mono l2 ?_ h2)⟩
    rintro x (h | h)
    · exact Or.inl (Or.inl h)
    · rcases List.mem_cons.1 h with h | h
      · exact Or.inl (Or.inr h)
      · exact Or.inr h

theorem seen_cases {vis : List Nat} {c : Nat} (hs : seen g vis c = true) : c ∈ vis ∨ g.unw c ∈ vis := by
  simpa [seen] using hs

/-- The entries pushed for one parent satisfy the queue invariant relative to what stood before them. -/
theorem expand_qinv (hk : ∀ t, SameKids g (g.unw t) t) (V : List Nat)
    (ks : List (Option Str × Nat)) : ∀ (vis : List Nat) (E : Node → Prop),
    (∀ v ∈ vis, Done g V v ∨ ∃ q', E q' ∧ SameKids g q'.ty v) →
    (∀ x ∈ (expand g vis ks).vis, x ∈ V) → QInv g V E (expand g vis ks).pushed := by
  induction ks with
  | nil => intro vis E _ _; simp [expand_nil, QInv]
  | cons k rest ih =>
    obtain ⟨v, c⟩ := k
    intro vis E H hV
    cases h : (seen g vis c && g.cuttable c) with
    | true =>
      rw [expand_cons_ref h] at hV ⊢
      exact ih vis E H hV
    | false =>
      rw [expand_cons_plain h] at hV ⊢
      refine ⟨?_, ih _ _ ?_ hV⟩
      · intro hcy
        simp only [plainNode, Bool.and_eq_true] at hcy
        rcases seen_cases hcy.1 with hm | hm
        · exact H c hm
        · rcases H _ hm with d | ⟨q', hq', hkk⟩
          · exact Or.inl (done_congr (hk c) d)
          · exact Or.inr ⟨q', hq', hkk.trans (hk c)⟩
      · intro u hu
        simp only [List.mem_append, List.mem_cons, List.not_mem_nil, or_false] at hu
        rcases hu with hu | rfl | rfl
        · rcases H u hu with d | ⟨q', hq', hkk⟩
          · exact Or.inl d
          · exact Or.inr ⟨q', Or.inl hq', hkk⟩
        · exact Or.inr ⟨_, Or.inr rfl, SameKids.refl _⟩
        · exact Or.inr ⟨_, Or.inr rfl, (hk c).symm⟩

theorem expand_vis_src (hk : ∀ t, SameKids g (g.unw t) t) (ks : List (Option Str × Nat)) :
    ∀ (vis : List Nat), ∀ u ∈ (expand g vis ks).vis,
      u ∈ vis ∨ ∃ n ∈ (expand g vis ks).pushed, SameKids g n.ty u := by
  induction ks with
  | nil => intro vis u hu; exact Or.inl (by simpa [expand_nil] using hu)
  | cons k rest ih =>
    obtain ⟨v, c⟩ := k
    intro vis u hu
    cases h : (seen g vis c && g.cuttable c) with
    | true =>
      rw [expand_cons_ref h] at hu ⊢
      exact ih vis u hu
    | false =>
      rw [expand_cons_plain h] at hu ⊢
      rcases ih _ u hu with h1 | ⟨n, hn, hkk⟩
      · simp only [List.mem_append, List.mem_cons, List.not_mem_nil, or_false] at h1
        rcases h1 with h1 | rfl | rfl
        · exact Or.inl h1
        · exact Or.inr ⟨_, List.mem_cons_self, SameKids.refl _⟩
        · exact Or.inr ⟨_, List.mem_cons_self, (hk c).symm⟩
      · exact Or.inr ⟨n, List.mem_cons_of_mem _ hn, hkk⟩

/-- Rank of a node for the acyclicity argument: forward references (0) < stdlib nodes (1) < re-walked
    nodes (2) < first occurrences of non-stdlib types (3). -/
def cls (g : TyGraph) (n : Node) : Nat :=
  if n.isRef then 0 else if n.cyclic then 2 else if g.stdlib n.ty then 1 else 3

theorem cls_ref {n : Node} (h : n.isRef = true) : cls g n = 0 := by simp [cls, h]
theorem cls_flag {n : Node} (h : n.isRef = false) (h2 : n.cyclic = true) : cls g n = 2 := by simp [cls, h, h2]
theorem cls_std {n : Node} (h : n.isRef = false) (h2 : n.cyclic = false) (h3 : g.stdlib n.ty = true) :
    cls g n = 1 := by simp [cls, h, h2, h3]
theorem cls_first {n : Node} (h : n.isRef = false) (h2 : n.cyclic = false) (h3 : g.stdlib n.ty = false) :
    cls g n = 3 := by simp [cls, h, h2, h3]

/-- `c` lies strictly below `p`: lower class; same class (not 3) and smaller type rank; both first
    occurrences and `c`'s type entered `visited` after `p`'s. -/
def Below (g : TyGraph) (rk : Nat → Nat) (vis : List Nat) (c p : Node) : Prop :=
  cls g c < cls g p ∨ (cls g c = cls g p ∧ cls g p ≠ 3 ∧ rk c.ty < rk p.ty) ∨
    (cls g c = 3 ∧ cls g p = 3 ∧ p.ty ∈ vis ∧ c.ty ∈ vis ∧ vis.idxOf p.ty < vis.idxOf c.ty)

theorem below_trans {rk : Nat → Nat} {vis : List Nat} {a b c : Node} (h1 : Below g rk vis a b)
    (h2 : Below g rk vis b c) : Below g rk vis a c := by
  unfold Below at *
  rcases h1 with h1 | ⟨h1, h1', h1''⟩ | ⟨h1, h1', ha, hb, h1''⟩ <;>
  rcases h2 with h2 | ⟨h2, h2', h2''⟩ | ⟨h2, h2', hb', hc, h2''⟩
  · left; omega
  · left; omega
  · left; omega
  · left; omega
  · right; left; exact ⟨by omega, h2', by omega⟩
  · omega
  · left; omega
  · omega
  · right; right; exact ⟨h1, h2', hb', hb, by omega⟩

theorem below_irrefl {rk : Nat → Nat} {vis : List Nat} {a : Node} : ¬ Below g rk vis a a := by
  unfold Below; omega

theorem idxOf_append_of_mem {l ext : List Nat} {x : Nat} (h : x ∈ l) : (l ++ ext).idxOf x = l.idxOf x := by
  rw [List.idxOf_append]; simp [h]

theorem below_mono {rk : Nat → Nat} {vis ext : List Nat} {c p : Node} (h : Below g rk vis c p) :
    Below g rk (vis ++ ext) c p := by
  unfold Below at *
  rcases h with h | h | ⟨h1, h2, h3, h4, h5⟩
  · exact Or.inl h
  · exact Or.inr (Or.inl h)
  · refine Or.inr (Or.inr ⟨h1, h2, List.mem_append_left _ h3, List.mem_append_left _ h4, ?_⟩)
    rw [idxOf_append_of_mem h3, idxOf_append_of_mem h4]; exact h5

theorem pred_key_mem {vis : List Nat} {ks : List (Option Str × Nat)} {n : Node}
    (hn : n ∈ (expand g vis ks).preds) : (n.var, n.ty) ∈ ks := by
  have := expand_preds_keys (g := g) vis ks
  rw [← this]; exact List.mem_map.2 ⟨n, hn, rfl⟩

/-- Members of a parent whose members are all visited: references, or walked nodes flagged unless stdlib. -/
theorem expand_preds_seen (ks : List (Option Str × Nat)) : ∀ vis : List Nat,
    (∀ c ∈ ks.map Prod.snd, seen g vis c = true) → ∀ n ∈ (expand g vis ks).preds,
      n.isRef = true ∨ (n.isRef = false ∧ n.cyclic = !g.stdlib n.ty ∧ g.cuttable n.ty = false) := by
  induction ks with
  | nil => intro vis _ n hn; simp [expand_nil] at hn
  | cons k rest ih =>
    obtain ⟨v, c⟩ := k
    intro vis H n hn
    have hc : seen g vis c = true := H c (by simp)
    have hrest : ∀ vis', (∀ x ∈ vis, x ∈ vis') → ∀ c' ∈ rest.map Prod.snd, seen g vis' c' = true :=
      fun vis' hm c' hc' => seen_mono hm (H c' (by simp only [List.map_cons, List.mem_cons]; exact Or.inr hc'))
    cases h : (seen g vis c && g.cuttable c) with
    | true =>
      rw [expand_cons_ref h] at hn
      rcases List.mem_cons.1 hn with rfl | hn
      · exact Or.inl rfl
      · exact ih vis (hrest vis (fun _ hx => hx)) n hn
    | false =>
      rw [expand_cons_plain h] at hn
      rcases List.mem_cons.1 hn with rfl | hn
      · right
        rw [hc] at h
        simp only [Bool.true_and] at h
        simp [plainNode, hc, h]
      · exact ih _ (hrest _ (fun _ hx => List.mem_append_left _ hx)) n hn

/-- Members of a parent whose members are all stdlib types: walked, unflagged nodes. -/
theorem expand_preds_std (ks : List (Option Str × Nat)) : ∀ vis : List Nat,
    (∀ c ∈ ks.map Prod.snd, g.stdlib c = true) → ∀ n ∈ (expand g vis ks).preds,
      n.isRef = false ∧ n.cyclic = false := by
  induction ks with
  | nil => intro vis _ n hn; simp [expand_nil] at hn
  | cons k rest ih =>
    obtain ⟨v, c⟩ := k
    intro vis H n hn
    have hc : g.stdlib c = true := H c (by simp)
    have hrest : ∀ c' ∈ rest.map Prod.snd, g.stdlib c' = true :=
      fun c' hc' => H c' (by simp only [List.map_cons, List.mem_cons]; exact Or.inr hc')
    have h : (seen g vis c && g.cuttable c) = false := by simp [TyGraph.cuttable, hc]
    rw [expand_cons_plain h] at hn
    rcases List.mem_cons.1 hn with rfl | hn
    · simp [plainNode, hc]
    · exact ih _ hrest n hn

/-- A first occurrence of a non-stdlib type enters `visited` after everything visited before the loop. -/
theorem expand_preds_fresh (ks : List (Option Str × Nat)) : ∀ vis : List Nat,
    ∀ n ∈ (expand g vis ks).preds, n.isRef = false → n.cyclic = false → g.stdlib n.ty = false →
      n.ty ∈ (expand g vis ks).vis ∧
      ∀ x ∈ vis, (expand g vis ks).vis.idxOf x < (expand g vis ks).vis.idxOf n.ty := by
  induction ks with
  | nil => intro vis n hn; simp [expand_nil] at hn
  | cons k rest ih =>
    obtain ⟨v, c⟩ := k
    intro vis n hn hr hcy hst
    cases h : (seen g vis c && g.cuttable c) with
    | true =>
      rw [expand_cons_ref h] at hn ⊢
      rcases List.mem_cons.1 hn with rfl | hn
      · simp [refNode] at hr
      · exact ih vis n hn hr hcy hst
    | false =>
      rw [expand_cons_plain h] at hn ⊢
      rcases List.mem_cons.1 hn with rfl | hn
      · simp only [plainNode] at hcy hst ⊢
        rw [hst] at hcy
        simp only [Bool.not_false, Bool.and_true] at hcy
        have hnot : c ∉ vis := by
          intro hm
          have : seen g vis c = true := by simp [seen, hm]
          rw [this] at hcy; cases hcy
        obtain ⟨ext, he⟩ := expand_vis_append (g := g) (vis ++ [c, g.unw c]) rest
        rw [he]
        refine ⟨by simp, ?_⟩
        intro x hx
        have h1 : (vis ++ [c, g.unw c] ++ ext).idxOf x = vis.idxOf x := by
          rw [List.append_assoc, idxOf_append_of_mem hx]
        have h2 : (vis ++ [c, g.unw c] ++ ext).idxOf c = vis.length := by
          rw [List.append_assoc, List.idxOf_append]; simp [hnot]
        rw [h1, h2]
        exact List.idxOf_lt_length_iff.2 hx
      · obtain ⟨i1, i2⟩ := ih _ n hn hr hcy hst
        exact ⟨i1, fun x hx => i2 x (List.mem_append_left _ hx)⟩

structure InvB (g : TyGraph) (rk : Nat → Nat) (s : State) : Prop where
  qIn : ∀ q ∈ s.queue, q.isRef = false ∧ q.ty ∈ s.vis
  qinv : QInv g s.vis (fun _ => False) s.queue
  visDone : ∀ v ∈ s.vis, Done g s.vis v ∨ ∃ q ∈ s.queue, SameKids g q.ty v
  edgeOK : ∀ a ∈ s.adds, ∀ c ∈ a.2, Below g rk s.vis c a.1

theorem invB_init {rk : Nat → Nat} (hw : WF g rk) (root : Nat) : InvB g rk (init g root) where
  qIn := by simp [init, rootNode, plainNode]
  qinv := by simp [init, QInv, rootNode, plainNode]
  visDone := by
    intro v hv
    simp only [init, List.mem_cons, List.not_mem_nil, or_false] at hv
    refine Or.inr ⟨rootNode g root, by simp [init], ?_⟩
    rcases hv with rfl | rfl
    · exact SameKids.refl _
    · exact (hw.kidsUnw root).symm
  edgeOK := by simp [init]

theorem invB_step {rk : Nat → Nat} (hw : WF g rk) (s : State) (p : Node) (rest : List Node)
    (hq : s.queue = p :: rest) (h : InvB g rk s) : InvB g rk (stepWith g s p rest) := by
  have hmono : ∀ x ∈ s.vis, x ∈ (expand g s.vis (g.kids p.ty)).vis := fun x hx => expand_vis_mono hx
  have hpdone : Done g (expand g s.vis (g.kids p.ty)).vis p.ty := expand_done _ _
  have hpq := h.qIn p (by simp [hq])
  have hqinv := h.qinv
  rw [hq] at hqinv
  obtain ⟨hphead, hqrest⟩ := hqinv
  -- what is known of a type visited before this step
  have hold : ∀ v ∈ s.vis, Done g (expand g s.vis (g.kids p.ty)).vis v ∨
      ∃ q', q' ∈ rest ∧ SameKids g q'.ty v := by
    intro v hv
    rcases h.visDone v hv with d | ⟨q, hqm, hk⟩
    · exact Or.inl (done_mono hmono d)
    · rw [hq] at hqm
      rcases List.mem_cons.1 hqm with rfl | hqm
      · exact Or.inl (done_congr hk hpdone)
      · exact Or.inr ⟨q, hqm, hk⟩
  refine ⟨?_, ?_, ?_, ?_⟩
  · intro q hq'
    simp only [stepWith_queue, List.mem_append] at hq'
    rcases hq' with hq' | hq'
    · have := h.qIn q (by rw [hq]; exact List.mem_cons_of_mem _ hq')
      exact ⟨this.1, expand_vis_mono this.2⟩
    · exact ⟨((expand_pushed_iff _ _ _).1 hq').2, expand_pushed_vis _ _ q hq'⟩
  · simp only [stepWith_queue, stepWith_vis]
    apply qinv_append
    · apply qinv_drop hmono hpdone
      exact qinv_mono rest (fun x hx => Or.inr (hx.elim False.elim id)) hqrest
    · apply expand_qinv hw.kidsUnw _ _ _ _ _ (fun x hx => hx)
      intro v hv
      rcases hold v hv with d | ⟨q', hq', hk⟩
      · exact Or.inl d
      · exact Or.inr ⟨q', Or.inr hq', hk⟩
  · intro v hv
    simp only [stepWith_vis] at hv
    simp only [stepWith_queue, stepWith_vis]
    rcases expand_vis_src hw.kidsUnw _ _ v hv with hv | ⟨n, hn, hk⟩
    · rcases hold v hv with d | ⟨q', hq', hk⟩
      · exact Or.inl d
      · exact Or.inr ⟨q', List.mem_append_left _ hq', hk⟩
    · exact Or.inr ⟨n, List.mem_append_right _ hn, hk⟩
  · intro a ha c hc
    simp only [stepWith_adds, List.mem_append, List.mem_singleton] at ha
    simp only [stepWith_vis]
    rcases ha with ha | rfl
    · obtain ⟨ext, he⟩ := expand_vis_append (g := g) s.vis (g.kids p.ty)
      rw [he]; exact below_mono (h.edgeOK a ha c hc)
    · -- the edges of the new `add`
      simp only at hc ⊢
      have hkey := pred_key_mem hc
      have hok := expand_preds_ok _ _ c hc
      have hpr : p.isRef = false := hpq.1
      cases hpc : p.cyclic with
      | true =>
        have hd : Done g s.vis p.ty := by
          rcases hphead hpc with d | ⟨_, hf, _⟩
          · exact d
          · exact hf.elim
        have hd' : ∀ c' ∈ (g.kids p.ty).map Prod.snd, seen g s.vis c' = true := hd
        have hclsp : cls g p = 2 := cls_flag hpr hpc
        rcases expand_preds_seen _ _ hd' c hc with hr | ⟨hr, hcy, hcut⟩
        · left; rw [cls_ref hr, hclsp]; omega
        · cases hst : g.stdlib c.ty with
          | true =>
            rw [hst] at hcy
            left; rw [cls_std hr (by simpa using hcy) hst, hclsp]; omega
          | false =>
            rw [hst] at hcy
            right; left
            refine ⟨by rw [cls_flag hr (by simpa using hcy), hclsp], by omega, hw.rank p.ty _ hkey hcut⟩
      | false =>
        cases hps : g.stdlib p.ty with
        | true =>
          have hall : ∀ c' ∈ (g.kids p.ty).map Prod.snd, g.stdlib c' = true := by
            intro c' hc'
            obtain ⟨vc, hvc, rfl⟩ := List.mem_map.1 hc'
            exact hw.stdClosed p.ty hps vc hvc
          obtain ⟨hr, hcy⟩ := expand_preds_std _ _ hall c hc
          have hcs : g.stdlib c.ty = true := hw.stdClosed p.ty hps _ hkey
          have hcut : g.cuttable c.ty = false := by simp [TyGraph.cuttable, hcs]
          have hclsp : cls g p = 1 := cls_std hpr hpc hps
          right; left
          refine ⟨by rw [cls_std hr hcy hcs, hclsp], by omega, hw.rank p.ty _ hkey hcut⟩
        | false =>
          have hclsp : cls g p = 3 := cls_first hpr hpc hps
          cases hr : c.isRef with
          | true => left; rw [cls_ref hr, hclsp]; omega
          | false =>
            cases hcy : c.cyclic with
            | true => left; rw [cls_flag hr hcy, hclsp]; omega
            | false =>
              cases hcs : g.stdlib c.ty with
              | true => left; rw [cls_std hr hcy hcs, hclsp]; omega
              | false =>
                obtain ⟨f1, f2⟩ := expand_preds_fresh _ _ c hc hr hcy hcs
                right; right
                exact ⟨cls_first hr hcy hcs, hclsp, expand_vis_mono hpq.2, f1, f2 _ hpq.2⟩

section Final
variable {root fuel : Nat} {adds : Adds} {o : List Node} {rk : Nat → Nat}

/-- (b) The edges handed to graphlib have no cycle, so `CycleError` is impossible. -/
theorem edges_acyclic (hw : WF g rk) (hb : build g root fuel = some adds) :
    ∀ n, ¬ Relation.TransGen (Edge adds) n n := by
  obtain ⟨vis, hB⟩ := build_final (InvB g rk) (invB_init hw root) (fun s p rest => invB_step hw s p rest) hb
  have hedge : ∀ c p, Edge adds c p → Below g rk vis c p := by
    rintro c p ⟨a, ha, rfl, hc⟩
    exact hB.edgeOK a ha c hc
  have htrans : ∀ a b, Relation.TransGen (Edge adds) a b → Below g rk vis a b := by
    intro a b hab
    induction hab with
    | single h => exact hedge _ _ h
    | tail _ h ih => exact below_trans ih (hedge _ _ h)
  intro n hn
  exact below_irrefl (htrans n n hn)

end Final

/-! ## 8. Termination with an explicit fuel bound -/

def unvisitedCut (g : TyGraph) (vis : List Nat) (t : Nat) : Bool := g.cuttable t && !vis.contains t

/-- Number of named non-stdlib types not yet in `visited`. -/
def unvisited (g : TyGraph) (vis : List Nat) : Nat := (List.range g.size).countP (unvisitedCut g vis)

def anonSum (g : TyGraph) (C : Nat → Nat) (ks : List (Option Str × Nat)) : Nat :=
  ((ks.filter (notCut g)).map (costOf C)).sum

def nodeCost (C : Nat → Nat) (n : Node) : Nat := C n.ty
def qSum (C : Nat → Nat) (q : List Node) : Nat := (q.map (nodeCost C)).sum

/-- The potential that drops with every pop. -/
def potential (g : TyGraph) (K : Nat) (C : Nat → Nat) (s : State) : Nat :=
  K * unvisited g s.vis + qSum C s.queue

theorem qSum_append (C : Nat → Nat) (a b : List Node) : qSum C (a ++ b) = qSum C a + qSum C b := by
  simp [qSum, List.sum_append]

theorem countP_strict {p q : Nat → Bool} {l : List Nat} {x : Nat} (hx : x ∈ l) (hq : q x = true)
    (hp : p x = false) (hpq : ∀ y, p y = true → q y = true) : l.countP p + 1 ≤ l.countP q := by
  induction l with
  | nil => cases hx
  | cons y l ih =>
    rcases List.mem_cons.1 hx with rfl | hx
    · have := List.countP_mono_left (l := l) (fun y _ h => hpq y h)
      simp [hq, hp]; omega
    · have := ih hx
      simp only [List.countP_cons]
      cases hpy : p y with
      | true => simp [hpq y hpy]; omega
      | false => simp; split <;> omega

theorem cuttable_lt {c : Nat} (h : g.cuttable c = true) : c < g.size := by
  by_cases hc : c < g.size
  · exact hc
  · simp [TyGraph.cuttable, TyGraph.named, TyGraph.qualified, out_of_range (Nat.le_of_not_lt hc)] at h

theorem unvisited_mono {vis vis' : List Nat} (h : ∀ x ∈ vis, x ∈ vis') : unvisited g vis' ≤ unvisited g vis := by
  apply List.countP_mono_left
  intro y _ hy
  simp only [unvisitedCut, Bool.and_eq_true, Bool.not_eq_true', List.contains_eq_mem, decide_eq_false_iff_not] at hy ⊢
  exact ⟨hy.1, fun hm => hy.2 (h y hm)⟩

theorem unvisited_strict {vis vis' : List Nat} (h : ∀ x ∈ vis, x ∈ vis') {c : Nat} (hc : g.cuttable c = true)
    (h1 : c ∉ vis) (h2 : c ∈ vis') : unvisited g vis' + 1 ≤ unvisited g vis := by
  apply countP_strict (x := c) (List.mem_range.2 (cuttable_lt hc))
  · simp [unvisitedCut, hc, h1]
  · simp [unvisitedCut, h2]
  · intro y hy
    simp only [unvisitedCut, Bool.and_eq_true, Bool.not_eq_true', List.contains_eq_mem, decide_eq_false_iff_not] at hy ⊢
    exact ⟨hy.1, fun hm => hy.2 (h y hm)⟩

/-- One parent's members: what they add to the queue is paid for by the members that are walked whatever
    happens (`anonSum`) and by the named types that become visited. -/
theorem expand_potential (K : Nat) (C : Nat → Nat) (hK : ∀ t, g.cuttable t = true → C t ≤ K)
    (ks : List (Option Str × Nat)) : ∀ vis : List Nat,
    K * unvisited g (expand g vis ks).vis + qSum C (expand g vis ks).pushed
      ≤ K * unvisited g vis + anonSum g C ks := by
  induction ks with
  | nil => intro vis; simp [expand_nil, qSum, anonSum]
  | cons k rest ih =>
    obtain ⟨v, c⟩ := k
    intro vis
    cases h : (seen g vis c && g.cuttable c) with
    | true =>
      rw [expand_cons_ref h]
      simp only [Bool.and_eq_true] at h
      have : anonSum g C ((v, c) :: rest) = anonSum g C rest := by
        simp [anonSum, notCut, h.2]
      rw [this]; exact ih vis
    | false =>
      rw [expand_cons_plain h]
      dsimp only
      have ih' := ih (vis ++ [c, g.unw c])
      have hsub : ∀ x ∈ vis, x ∈ vis ++ [c, g.unw c] := fun x hx => List.mem_append_left _ hx
      have hq : qSum C (plainNode g v c (seen g vis c && !g.stdlib c) ::
          (expand g (vis ++ [c, g.unw c]) rest).pushed)
          = C c + qSum C (expand g (vis ++ [c, g.unw c]) rest).pushed := by
        simp [qSum, nodeCost, plainNode]
      rw [hq]
      cases hcut : g.cuttable c with
      | true =>
        rw [hcut] at h
        simp only [Bool.and_true] at h
        have hnot : c ∉ vis := by
          intro hm
          have : seen g vis c = true := by simp [seen, hm]
          rw [this] at h; cases h
        have hU := unvisited_strict (g := g) hsub hcut hnot (by simp)
        have hm := Nat.mul_le_mul_left K hU
        rw [Nat.mul_add, Nat.mul_one] at hm
        have hc := hK c hcut
        have : anonSum g C ((v, c) :: rest) = anonSum g C rest := by
          simp [anonSum, notCut, hcut]
        rw [this]; omega
      | false =>
        have hU := unvisited_mono (g := g) hsub
        have hm := Nat.mul_le_mul_left K hU
        have : anonSum g C ((v, c) :: rest) = C c + anonSum g C rest := by
          simp [anonSum, notCut, hcut, costOf]
        rw [this]; omega

theorem anonKids_nil_of_rank_zero {rk : Nat → Nat} (hw : WF g rk) {t : Nat} (h : rk t = 0) : anonKids g t = [] := by
  simp only [anonKids, List.filter_eq_nil_iff]
  intro vc hvc hn
  have := hw.rank t vc hvc (by simpa [notCut] using hn)
  omega

theorem anonKids_mem {t : Nat} {vc : Option Str × Nat} (h : vc ∈ anonKids g t) :
    vc ∈ g.kids t ∧ g.cuttable vc.2 = false := by
  simp only [anonKids, List.mem_filter, notCut, Bool.not_eq_true'] at h
  exact h

theorem cost_stable {rk : Nat → Nat} (hw : WF g rk) : ∀ f t, rk t ≤ f → cost g (f + 1) t = cost g f t := by
  intro f
  induction f with
  | zero =>
    intro t ht
    simp [cost, anonKids_nil_of_rank_zero hw (Nat.le_zero.1 ht)]
  | succ f ih =>
    intro t ht
    show 1 + ((anonKids g t).map (costOf (cost g (f + 1)))).sum = 1 + ((anonKids g t).map (costOf (cost g f))).sum
    congr 2
    apply List.map_congr_left
    intro vc hvc
    obtain ⟨h1, h2⟩ := anonKids_mem hvc
    have := hw.rank t vc h1 h2
    exact ih vc.2 (by omega)

theorem kids_out_of_range {t : Nat} (h : g.size ≤ t) : g.kids t = [] := by
  simp [TyGraph.kids, out_of_range h]

/-- With enough unfolding depth `cost` satisfies its defining equation. -/
theorem cost_fix {rk : Nat → Nat} (hw : WF g rk) (R : Nat) (hR : ∀ t, t < g.size → rk t ≤ R) (t : Nat) :
    cost g R t = 1 + anonSum g (cost g R) (g.kids t) := by
  show cost g R t = 1 + ((anonKids g t).map (costOf (cost g R))).sum
  by_cases ht : t < g.size
  · cases R with
    | zero => simp [cost, anonKids_nil_of_rank_zero hw (Nat.le_zero.1 (hR t ht))]
    | succ R =>
      show 1 + ((anonKids g t).map (costOf (cost g R))).sum = 1 + ((anonKids g t).map (costOf (cost g (R + 1)))).sum
      congr 2
      apply List.map_congr_left
      intro vc hvc
      obtain ⟨h1, h2⟩ := anonKids_mem hvc
      have h3 := hw.rank t vc h1 h2
      have h4 := hR t ht
      exact (cost_stable hw R vc.2 (by omega)).symm
  · have : anonKids g t = [] := by simp [anonKids, kids_out_of_range (Nat.le_of_not_lt ht)]
    cases R <;> simp [cost, this]

theorem cost_pos (f t : Nat) : 1 ≤ cost g f t := by
  cases f <;> simp [cost]

theorem le_sum_map {l : List Nat} {f : Nat → Nat} {x : Nat} (h : x ∈ l) : f x ≤ (l.map f).sum := by
  induction l with
  | nil => cases h
  | cons y l ih =>
    rcases List.mem_cons.1 h with rfl | h
    · simp
    · have := ih h; simp; omega

theorem rank_le_rankSum (rk : Nat → Nat) {t : Nat} (h : t < g.size) : rk t ≤ rankSum g rk :=
  le_sum_map (List.mem_range.2 h)

theorem cost_le_costAll {rk : Nat → Nat} (hw : WF g rk) (t : Nat) : cost g (rankSum g rk) t ≤ costAll g rk := by
  by_cases ht : t < g.size
  · have := le_sum_map (f := cost g (rankSum g rk)) (List.mem_range.2 ht)
    simp only [costAll]; omega
  · have h1 := cost_fix hw (rankSum g rk) (fun t ht => rank_le_rankSum rk ht) t
    rw [kids_out_of_range (Nat.le_of_not_lt ht)] at h1
    simp [anonSum] at h1
    simp only [costAll]; omega

theorem potential_step {rk : Nat → Nat} (hw : WF g rk) (s : State) (p : Node) (rest : List Node)
    (hq : s.queue = p :: rest) :
    potential g (costAll g rk) (cost g (rankSum g rk)) (stepWith g s p rest) + 1
      ≤ potential g (costAll g rk) (cost g (rankSum g rk)) s := by
  have h1 := expand_potential (g := g) (costAll g rk) (cost g (rankSum g rk))
    (fun t _ => cost_le_costAll hw t) (g.kids p.ty) s.vis
  have h2 := cost_fix hw (rankSum g rk) (fun t ht => rank_le_rankSum rk ht) p.ty
  simp only [potential, stepWith_vis, stepWith_queue, qSum_append, hq]
  have : qSum (cost g (rankSum g rk)) (p :: rest)
      = cost g (rankSum g rk) p.ty + qSum (cost g (rankSum g rk)) rest := by
    simp [qSum, nodeCost]
  rw [this]; omega

theorem qSum_pos (C : Nat → Nat) (hC : ∀ t, 1 ≤ C t) (p : Node) (rest : List Node) : 1 ≤ qSum C (p :: rest) := by
  have := hC p.ty
  simp [qSum, nodeCost]; omega

theorem run_terminates {rk : Nat → Nat} (hw : WF g rk) : ∀ fuel s,
    potential g (costAll g rk) (cost g (rankSum g rk)) s ≤ fuel → (run g fuel s).isSome = true := by
  intro fuel
  induction fuel with
  | zero =>
    intro s hs
    cases hq : s.queue with
    | nil => simp [run, hq]
    | cons p rest =>
      have := qSum_pos (cost g (rankSum g rk)) (cost_pos _) p rest
      simp only [potential, hq] at hs
      omega
  | succ f ih =>
    intro s hs
    cases hq : s.queue with
    | nil => simp [run, hq]
    | cons p rest =>
      simp only [run, hq]
      exact ih _ (by have := potential_step hw s p rest hq; omega)

/-- (a) With fuel at least (number of type ids + 1) × (1 + Σ_t cost t) + 1 the loop finishes. -/
theorem build_terminates_of {rk : Nat → Nat} (hw : WF g rk) (root fuel : Nat)
    (hf : (g.size + 1) * costAll g rk + 1 ≤ fuel) : (build g root fuel).isSome = true := by
  have hU : unvisited g [root, g.unw root] ≤ g.size := by
    have := List.countP_le_length (p := unvisitedCut g [root, g.unw root]) (l := List.range g.size)
    simpa [unvisited] using this
  have hC := cost_le_costAll hw root
  have hm := Nat.mul_le_mul_left (costAll g rk) hU
  have hp : potential g (costAll g rk) (cost g (rankSum g rk)) (init g root) ≤ fuel := by
    simp only [potential, init, qSum, List.map_cons, List.map_nil, List.sum_cons, List.sum_nil, nodeCost,
      rootNode, plainNode]
    rw [Nat.add_mul, Nat.one_mul, Nat.mul_comm] at hf
    omega
  have := run_terminates hw fuel (init g root) hp
  simp only [build, Option.isSome_map]
  exact this

theorem build_terminates (h : wf g = true) (root fuel : Nat) (hf : fuelBound g ≤ fuel) :
    (build g root fuel).isSome = true :=
  build_terminates_of (wf_sound h) root fuel hf

/-- The hypothesis is needed: an anonymous type that contains itself (`X = list[X]` as an object graph)
    is not well-formed, and on it the loop re-walks the type forever. -/
def loopG : TyGraph :=
  { tys := [{ named := false, qualified := false, stdlib := false, leaf := false, unwrapped := 0, ucls := false, children := [(none, 0)] }] }

theorem loopG_not_wf : wf loopG = false := by decide

theorem loop_spins : ∀ (fuel : Nat) (vis : List Nat) (adds : Adds), 0 ∈ vis →
    run loopG fuel { vis := vis, queue := [plainNode loopG none 0 true], adds := adds } = none := by
  intro fuel
  induction fuel with
  | zero => intro vis adds _; simp [run]
  | succ f ih =>
    intro vis adds h0
    have hk : loopG.kids 0 = [(none, 0)] := rfl
    have hc : loopG.cuttable 0 = false := rfl
    have hs : loopG.stdlib 0 = false := rfl
    have hseen : seen loopG vis 0 = true := by simp [seen, h0]
    have he : expand loopG vis [(none, 0)] =
        { vis := vis ++ [0, loopG.unw 0], preds := [plainNode loopG none 0 true],
          pushed := [plainNode loopG none 0 true] } := by
      rw [expand_cons_plain (by simp [hseen, hc])]
      simp [expand_nil, hseen, hs]
    simp only [run, stepWith, plainNode, hk]
    simp only [plainNode] at he ih
    rw [he]
    exact ih _ _ (by simp [h0])

theorem loop_diverges : ∀ fuel, build loopG 0 fuel = none := by
  intro fuel
  cases fuel with
  | zero => simp [build, run, init]
  | succ f =>
    have hk : loopG.kids 0 = [(none, 0)] := rfl
    have hc : loopG.cuttable 0 = false := rfl
    have hs : loopG.stdlib 0 = false := rfl
    have hseen : seen loopG [0, loopG.unw 0] 0 = true := by simp [seen]
    have he : expand loopG [0, loopG.unw 0] [(none, 0)] =
        { vis := [0, loopG.unw 0] ++ [0, loopG.unw 0], preds := [plainNode loopG none 0 true],
          pushed := [plainNode loopG none 0 true] } := by
      rw [expand_cons_plain (by simp [hseen, hc])]
      simp [expand_nil, hseen, hs]
    simp only [build, run, init, stepWith, rootNode, plainNode, hk, Option.map_eq_none_iff]
    simp only [plainNode] at he
    rw [he]
    exact loop_spins f _ _ (by simp)

/-! ## 9. graphlib's order: a checked certificate -/

theorem mem_insertNew {l : List Node} {n x : Node} : x ∈ insertNew l n ↔ x ∈ l ∨ x = n := by
  unfold insertNew
  split
  · next h =>
    have : n ∈ l := by simpa using h
    constructor
    · exact Or.inl
    · rintro (h | rfl)
      · exact h
      · exact this
  · simp

theorem mem_foldl_insertNew (ps : List Node) : ∀ (acc : List Node) (x : Node),
    x ∈ ps.foldl insertNew acc ↔ x ∈ acc ∨ x ∈ ps := by
  induction ps with
  | nil => simp
  | cons p ps ih =>
    intro acc x
    simp only [List.foldl_cons, ih, mem_insertNew, List.mem_cons]
    constructor
    · rintro ((h | h) | h)
      · exact Or.inl h
      · exact Or.inr (Or.inl h)
      · exact Or.inr (Or.inr h)
    · rintro (h | h | h)
      · exact Or.inl (Or.inl h)
      · exact Or.inl (Or.inr h)
      · exact Or.inr h

theorem mem_foldl_addNodes (adds : Adds) : ∀ (acc : List Node) (x : Node),
    x ∈ adds.foldl addNodes acc ↔ x ∈ acc ∨ x ∈ allNodes adds := by
  induction adds with
  | nil => simp [allNodes]
  | cons a adds ih =>
    intro acc x
    simp only [List.foldl_cons, ih, addNodes, mem_foldl_insertNew, mem_insertNew, allNodes, List.flatMap_cons,
      List.mem_append, List.mem_cons]
    constructor
    · rintro (((h | h) | h) | h)
      · exact Or.inl h
      · exact Or.inr (Or.inl (Or.inl h))
      · exact Or.inr (Or.inl (Or.inr h))
      · exact Or.inr (Or.inr h)
    · rintro (h | (h | h) | h)
      · exact Or.inl (Or.inl (Or.inl h))
      · exact Or.inl (Or.inl (Or.inr h))
      · exact Or.inl (Or.inr h)
      · exact Or.inr h

theorem mem_nodesOf {adds : Adds} {x : Node} : x ∈ nodesOf adds ↔ x ∈ allNodes adds := by
  simp [nodesOf, mem_foldl_addNodes]

/-- The boolean certificate the driver evaluates on every sequence it reports is sound. -/
theorem checkTopo_sound {adds : Adds} {o : List Node} (h : checkTopo adds o = true) : IsTopoOrder adds o := by
  simp only [checkTopo, Bool.and_eq_true, decide_eq_true_eq, List.all_eq_true, List.contains_iff_mem] at h
  obtain ⟨⟨⟨h1, h2⟩, h3⟩, h4⟩ := h
  refine ⟨h1, fun n => ⟨fun hn => mem_nodesOf.1 (h3 n hn), fun hn => h2 n (mem_nodesOf.2 hn)⟩, ?_⟩
  rintro c p ⟨a, ha, rfl, hc⟩
  exact h4 a ha c hc

/-! ## 10. Non-vacuity: the hypotheses hold on the graphs of real recursive programs -/

private def ti (named stdlib : Bool) (unw : Nat) (ucls : Bool) (kids : List (Option Str × Nat))
    (qualified : Bool := false) : TyInfo :=
  { named := named, qualified := qualified, stdlib := stdlib, leaf := false, unwrapped := unw, ucls := ucls, children := kids }

/-- `class Node: children: list[Node]`, root `list[Node]`:  0 = list[Node], 1 = Node. -/
def gNode : TyGraph := { tys := [ti false false 0 false [(none, 1)], ti true false 1 true [(some ['c'], 0)]] }

/-- `class Head: x: Optional[LNode]`, `class LNode: x: Optional[LNode]`, root `Head`:
    0 = Head, 1 = Optional[LNode], 2 = LNode, 3 = NoneType. -/
def gHead : TyGraph :=
  { tys := [ti true false 0 true [(some ['x'], 1)], ti false false 1 false [(none, 2), (none, 3)],
            ti true false 2 true [(some ['x'], 1)], ti true true 3 true []] }

/-- `class KNode: kids: dict[str, list[KNode]]`, root `dict[str, list[KNode]]`:
    0 = dict[str, list[KNode]], 1 = str, 2 = list[KNode], 3 = KNode. -/
def gKNode : TyGraph :=
  { tys := [ti false false 0 false [(none, 1), (none, 2)], ti true true 1 true [],
            ti false false 2 false [(none, 3)], ti true false 3 true [(some ['k'], 0)]] }

/-- A diamond of generics `tuple[list[int], list[int]]` seen as a generic: 0 = the tuple, 1 = list[int], 2 = int. -/
def gDiamond : TyGraph :=
  { tys := [ti false false 0 false [(none, 1), (none, 1)], ti false false 1 false [(none, 2)], ti true true 2 true []] }

example : wf gNode = true := by decide
example : wf gHead = true := by decide
example : wf gKNode = true := by decide
example : wf gDiamond = true := by decide

private def N (ty unw : Nat) (v : Option Str) (cyc ref : Bool) : Node :=
  { ty := ty, unwrapped := unw, var := v, cyclic := cyc, isRef := ref, qual := false }

/-- The sequence the real `static_order(list[Node])` returns: the reference to `Node`, the re-walked
    `list[Node]` of the field, `Node`, the root. -/
def oNode : List Node :=
  [N 1 1 none true true, N 0 0 (some ['c']) true false, N 1 1 none false false, N 0 0 none false false]

def aNode : Adds :=
  [(N 0 0 none false false, [N 1 1 none false false]),
   (N 1 1 none false false, [N 0 0 (some ['c']) true false]),
   (N 0 0 (some ['c']) true false, [N 1 1 none true true])]

example : build gNode 0 5 = some aNode := by decide
example : staticOrder aNode = some oNode := by decide
example : IsTopoOrder aNode oNode := checkTopo_sound (by decide)
example : (build gNode 0 (fuelBound gNode)).isSome = true := build_terminates (by decide) 0 _ (Nat.le_refl _)

/-- `static_order(Head)`: NoneType, ref LNode, re-walked Optional[LNode], LNode, Optional[LNode], Head. -/
def oHead : List Node :=
  [N 3 3 none false false, N 2 2 none true true, N 1 1 (some ['x']) true false, N 2 2 none false false,
   N 1 1 (some ['x']) false false, N 0 0 none false false]

example : (build gHead 0 8).bind staticOrder = some oHead := by decide
example : ((build gHead 0 8).map (fun a => checkTopo a oHead)) = some true := by decide

/-- `static_order(dict[str, list[KNode]])`. -/
def oKNode : List Node :=
  [N 1 1 none false false, N 3 3 none true true, N 2 2 none true false, N 0 0 (some ['k']) true false,
   N 3 3 none false false, N 2 2 none false false, N 0 0 none false false]

example : (build gKNode 0 10).bind staticOrder = some oKNode := by decide
example : ((build gKNode 0 10).map (fun a => checkTopo a oKNode)) = some true := by decide

/-- The diamond: the second `list[int]` is a node of its own (flagged), `int` is shared. -/
def oDiamond : List Node :=
  [N 2 2 none false false, N 1 1 none false false, N 1 1 none true false, N 0 0 none false false]

example : (build gDiamond 0 8).bind staticOrder = some oDiamond := by decide
example : ((build gDiamond 0 8).map (fun a => checkTopo a oDiamond)) = some true := by decide

/-- All the theorems of this file instantiated on `gNode`. -/
example : oNode.Nodup ∧ oNode.getLast? = some (rootNode gNode 0)
    ∧ (∀ n ∈ oNode, n.isRef = true → n.cyclic = true)
    ∧ (∀ n, ¬ Relation.TransGen (Edge aNode) n n) := by
  have hb : build gNode 0 5 = some aNode := by decide
  have ho : IsTopoOrder aNode oNode := checkTopo_sound (by decide)
  have hw : WF gNode (rank gNode) := wf_sound (by decide)
  exact ⟨order_nodup hb ho, root_last hb ho, fun n hn hr => ref_flagged hb ho hn hr, edges_acyclic hw hb⟩

/-! ## 11. The hypotheses are needed -/

/-- `class Head: x: Union[None, LNode]`, `class LNode: x: Union[None, LNode]` with the union (id 1) judged a
    stdlib type although it contains the class `LNode` — what `isstdlibtype` answered before 612940b (None
    first) and before f6f9920 (a union behind an alias): 0 = Head, 1 = the union, 2 = LNode, 3 = NoneType. -/
def gBadStd : TyGraph :=
  { tys := [ti true false 0 true [(some ['x'], 1)], ti false true 1 false [(none, 3), (none, 2)],
            ti true false 2 true [(some ['x'], 1)], ti true true 3 true []] }

/-- Without `stdClosed` (members of stdlib types are stdlib types) `edges_acyclic` fails: the revisited union is
    not flagged, merges with its first occurrence and becomes its own ancestor; graphlib raises CycleError. -/
theorem stdClosed_needed : wf gBadStd = false ∧
    ∃ adds, build gBadStd 0 8 = some adds ∧ staticOrder adds = none ∧
      Relation.TransGen (Edge adds) (N 1 1 (some ['x']) false false) (N 1 1 (some ['x']) false false) := by
  refine ⟨by decide, _, rfl, by decide, ?_⟩
  apply Relation.TransGen.tail (b := N 2 2 none false false)
  · exact Relation.TransGen.single ⟨(N 2 2 none false false, [N 1 1 (some ['x']) false false]), by decide, rfl, by decide⟩
  · exact ⟨(N 1 1 (some ['x']) false false, [N 3 3 none false false, N 2 2 none false false]), by decide, rfl, by decide⟩

/-! ## 12. Spelling invariance of the root (NewType / value alias vs. the type it stands for) -/

/-- Two `visited` sets that answer `is_visited` alike. -/
def SeenEq (g : TyGraph) (v1 v2 : List Nat) : Prop := ∀ c, seen g v1 c = seen g v2 c

theorem seen_iff {vis : List Nat} {c : Nat} : seen g vis c = true ↔ c ∈ vis ∨ g.unw c ∈ vis := by
  simp [seen]

theorem seenEq_of_iff {v1 v2 : List Nat} (h : ∀ c, (c ∈ v1 ∨ g.unw c ∈ v1) ↔ (c ∈ v2 ∨ g.unw c ∈ v2)) :
    SeenEq g v1 v2 := by
  intro c
  rw [Bool.eq_iff_iff, seen_iff, seen_iff]
  exact h c

theorem seenEq_append {v1 v2 : List Nat} (h : SeenEq g v1 v2) (l : List Nat) : SeenEq g (v1 ++ l) (v2 ++ l) := by
  intro c
  have := h c
  rw [Bool.eq_iff_iff, seen_iff, seen_iff] at this
  rw [Bool.eq_iff_iff, seen_iff, seen_iff]
  simp only [List.mem_append]
  constructor
  · rintro ((h1 | h1) | (h1 | h1))
    · rcases this.1 (Or.inl h1) with h2 | h2
      · exact Or.inl (Or.inl h2)
      · exact Or.inr (Or.inl h2)
    · exact Or.inl (Or.inr h1)
    · rcases this.1 (Or.inr h1) with h2 | h2
      · exact Or.inl (Or.inl h2)
      · exact Or.inr (Or.inl h2)
    · exact Or.inr (Or.inr h1)
  · rintro ((h1 | h1) | (h1 | h1))
    · rcases this.2 (Or.inl h1) with h2 | h2
      · exact Or.inl (Or.inl h2)
      · exact Or.inr (Or.inl h2)
    · exact Or.inl (Or.inr h1)
    · rcases this.2 (Or.inr h1) with h2 | h2
      · exact Or.inl (Or.inl h2)
      · exact Or.inr (Or.inl h2)
    · exact Or.inr (Or.inr h1)

/-- The inner loop depends on `visited` only through `is_visited`. -/
theorem expand_seenEq (ks : List (Option Str × Nat)) : ∀ v1 v2 : List Nat, SeenEq g v1 v2 →
    (expand g v1 ks).preds = (expand g v2 ks).preds ∧ (expand g v1 ks).pushed = (expand g v2 ks).pushed ∧
      SeenEq g (expand g v1 ks).vis (expand g v2 ks).vis := by
  induction ks with
  | nil => intro v1 v2 h; simp [expand_nil, h]
  | cons k rest ih =>
    obtain ⟨v, c⟩ := k
    intro v1 v2 h
    have hc := h c
    cases h1 : (seen g v1 c && g.cuttable c) with
    | true =>
      have h2 : (seen g v2 c && g.cuttable c) = true := by rw [← hc]; exact h1
      rw [expand_cons_ref h1, expand_cons_ref h2]
      obtain ⟨i1, i2, i3⟩ := ih v1 v2 h
      exact ⟨by simp [i1], i2, i3⟩
    | false =>
      have h2 : (seen g v2 c && g.cuttable c) = false := by rw [← hc]; exact h1
      rw [expand_cons_plain h1, expand_cons_plain h2]
      obtain ⟨i1, i2, i3⟩ := ih _ _ (seenEq_append h [c, g.unw c])
      exact ⟨by simp [i1, hc], by simp [i2, hc], i3⟩

theorem run_sim : ∀ (fuel : Nat) (s1 s2 : State), SeenEq g s1.vis s2.vis → s1.queue = s2.queue →
    ∀ r1, run g fuel s1 = some r1 →
      ∃ r2 X, run g fuel s2 = some r2 ∧ r1.adds = s1.adds ++ X ∧ r2.adds = s2.adds ++ X := by
  intro fuel
  induction fuel with
  | zero =>
    intro s1 s2 _ hq r1 h
    simp only [run] at h ⊢
    rw [← hq]
    split at h
    · next hq1 => cases h; exact ⟨s2, [], by simp⟩
    · cases h
  | succ f ih =>
    intro s1 s2 hv hq r1 h
    simp only [run] at h ⊢
    rw [← hq]
    split at h
    · next hq1 => cases h; exact ⟨s2, [], by simp⟩
    · next p rest hq1 =>
      obtain ⟨e1, e2, e3⟩ := expand_seenEq (g.kids p.ty) s1.vis s2.vis hv
      obtain ⟨r2, X, hr2, ha1, ha2⟩ := ih (stepWith g s1 p rest) (stepWith g s2 p rest)
        (by simpa using e3) (by simp [e2]) r1 h
      refine ⟨r2, (p, (expand g s1.vis (g.kids p.ty)).preds) :: X, by simpa [hq1] using hr2, ?_, ?_⟩
      · simpa using ha1
      · rw [ha2]; simp [e1]

/-- A root given through a NewType / value alias `r` and the type `unwrap(r)` it stands for produce the same
    `graph.add` calls, the label of the root node apart (so the same sequences, up to that label). -/
theorem alias_root_same_graph (hidem : ∀ t, g.unw (g.unw t) = g.unw t) {r fuel : Nat} {adds : Adds}
    (hk : g.kids (g.unw r) = g.kids r) (hb : build g r fuel = some adds) :
    ∃ P X, adds = (rootNode g r, P) :: X ∧ build g (g.unw r) fuel = some ((rootNode g (g.unw r), P) :: X) := by
  obtain ⟨s, hs, rfl⟩ := build_some hb
  cases fuel with
  | zero => simp [run, init] at hs
  | succ f =>
    have hseen : SeenEq g [r, g.unw r] [g.unw r, g.unw (g.unw r)] := by
      apply seenEq_of_iff
      intro c
      simp only [List.mem_cons, List.not_mem_nil, or_false, hidem]
      constructor
      · rintro ((h | h) | (h | h))
        · exact Or.inr (Or.inl (by rw [h]))
        · exact Or.inl (Or.inl h)
        · have : g.unw c = g.unw r := by rw [← hidem c, h]
          exact Or.inr (Or.inl this)
        · exact Or.inr (Or.inl h)
      · rintro ((h | h) | (h | h))
        · exact Or.inl (Or.inr h)
        · exact Or.inl (Or.inr h)
        · exact Or.inr (Or.inr h)
        · exact Or.inr (Or.inr h)
    simp only [run, init] at hs
    have hs' : run g f (stepWith g (init g r) (rootNode g r) []) = some s := hs
    obtain ⟨r2, X, hr2, ha1, ha2⟩ := run_sim f (stepWith g (init g r) (rootNode g r) [])
      (stepWith g (init g (g.unw r)) (rootNode g (g.unw r)) [])
      (by
        have := (expand_seenEq (g.kids r) _ _ hseen).2.2
        simpa [init, rootNode, plainNode, hk] using this)
      (by
        have := (expand_seenEq (g.kids r) _ _ hseen).2.1
        simpa [init, rootNode, plainNode, hk] using this)
      s hs'
    refine ⟨(expand g [r, g.unw r] (g.kids r)).preds, X, by simpa [init, rootNode, plainNode] using ha1, ?_⟩
    have hp := (expand_seenEq (g.kids r) _ _ hseen).1
    simp only [build, run, init]
    show Option.map State.adds (run g f (stepWith g (init g (g.unw r)) (rootNode g (g.unw r)) [])) = _
    rw [hr2]
    simp only [Option.map_some, ha2]
    simp [init, rootNode, plainNode, hk, hp]

/-! ## 13. A root without members (in particular a string-valued alias) is a single node -/

/-- A root whose unwrapped type has no members — a string-valued alias unwraps to a bare `ForwardRef`, which has
    none — gives one `add` without predecessors: the sequence is the single root node, whose `unwrapped` is
    `unwrap(root)` (for the string alias: the forward reference to its body). -/
theorem leaf_root_single (root fuel : Nat) (h : g.kids root = []) :
    build g root (fuel + 1) = some [(rootNode g root, [])] := by
  cases fuel <;> simp [build, run, init, stepWith, rootNode, plainNode, h, expand_nil]

theorem single_order {n : Node} {o : List Node} (ho : IsTopoOrder [(n, [])] o) : o = [n] := by
  have hmem : ∀ x, x ∈ o ↔ x = n := by
    intro x; rw [ho.complete]; simp [allNodes]
  cases o with
  | nil => exact absurd ((hmem n).2 rfl) (by simp)
  | cons x xs =>
    have hx : x = n := (hmem x).1 (by simp)
    subst hx
    have hnd := ho.nodup
    rw [List.nodup_cons] at hnd
    have : xs = [] := by
      apply List.eq_nil_iff_forall_not_mem.2
      intro y hy
      have := (hmem y).1 (List.mem_cons_of_mem _ hy)
      subst this
      exact hnd.1 hy
    rw [this]

/-- `AL = TypeAliasType("AL", "list[int]")` as root: 0 = AL, 1 = ForwardRef('list[int]'). -/
def gStrAlias : TyGraph := { tys := [ti true false 1 false [], ti false false 1 false []] }

example : build gStrAlias 0 1 = some [(N 0 1 none false false, [])] := leaf_root_single 0 0 rfl
example : wf gStrAlias = true := by decide

/-! ## 14. Every theorem instantiated on a real recursive program (`Head` / `LNode`) -/

def aHead : Adds := (build gHead 0 8).getD []

example : build gHead 0 8 = some aHead := by decide

example :
    -- (c1) (c2)
    oHead.Nodup ∧ oHead.getLast? = some (rootNode gHead 0)
    -- (c3) the members of `Head` (x: Optional[LNode]) and of the re-walked Optional[LNode] come first
    ∧ (∃ m ∈ oHead, m.var = some ['x'] ∧ m.ty = 1 ∧ oHead.idxOf m < oHead.idxOf (N 0 0 none false false))
    -- (c4) the reference to LNode is flagged, it is a reference because LNode is named and non-stdlib,
    --      and it revisits LNode, which has an unflagged node of its own
    ∧ (N 2 2 none true true).cyclic = true
    ∧ (N 2 2 none true true).isRef = ((N 2 2 none true true).cyclic && gHead.cuttable 2)
    ∧ (∃ m ∈ oHead, m.cyclic = false ∧ m.isRef = false ∧ gHead.unw m.ty = gHead.unw 2)
    -- (c5) it stands for the member `LNode` of the later re-walked Optional[LNode]
    ∧ (∃ p ∈ oHead, p.isRef = false ∧ (none, 2) ∈ gHead.kids p.ty ∧
        oHead.idxOf (N 2 2 none true true) < oHead.idxOf p)
    -- (b)
    ∧ (∀ n, ¬ Relation.TransGen (Edge aHead) n n) := by
  have hb : build gHead 0 8 = some aHead := by decide
  have ho : IsTopoOrder aHead oHead := checkTopo_sound (by decide)
  have hw : WF gHead (rank gHead) := wf_sound (by decide)
  have hroot : N 0 0 none false false ∈ oHead := by decide
  have href : N 2 2 none true true ∈ oHead := by decide
  refine ⟨order_nodup hb ho, root_last hb ho, ?_, ref_flagged hb ho href rfl, ref_iff_flagged_named hb ho href,
    flagged_revisit hw hb ho href rfl, (deferred_denotes hb ho href rfl).1, edges_acyclic hw hb⟩
  obtain ⟨m, hm, h1, h2, h3⟩ := members_precede hb ho hroot rfl (some ['x'], 1) (by decide)
  exact ⟨m, hm, h1, h2, h3⟩

/-! ## 15. Qualified spellings of a class (`ClassVar[C]`, `Final[C]`) -/

/-- `class A: x: ClassVar[A]` (the shape of pendulum's `EPOCH: ClassVar[DateTime]`): 0 = A,
    1 = ClassVar[A], a qualified spelling of A whose members are A's own fields. -/
def gClassVar : TyGraph :=
  { tys := [ti true false 0 true [(some ['x'], 1)], ti false false 0 true [(some ['x'], 1)] (qualified := true)] }

example : wf gClassVar = true := by decide

/-- `static_order(A)`: the qualified annotation itself, deferred (its `unwrapped` is a reference to A), then A. -/
def oClassVar : List Node :=
  [{ ty := 1, unwrapped := 0, var := some ['x'], cyclic := true, isRef := true, qual := true }, N 0 0 none false false]

example : (build gClassVar 0 4).bind staticOrder = some oClassVar := by decide
example : ((build gClassVar 0 4).map (fun a => checkTopo a oClassVar)) = some true := by decide
example : (build gClassVar 0 (fuelBound gClassVar)).isSome = true := build_terminates (by decide) 0 _ (Nat.le_refl _)

/-- A walked, flagged entry of an uncuttable non-stdlib type that is its own only member is re-created by every pop. -/
theorem spins (g : TyGraph) (v : Option Str) (c : Nat) (hk : g.kids c = [(v, c)]) (hc : g.cuttable c = false)
    (hs : g.stdlib c = false) : ∀ (fuel : Nat) (vis : List Nat) (adds : Adds), c ∈ vis →
    run g fuel { vis := vis, queue := [plainNode g v c true], adds := adds } = none := by
  intro fuel
  induction fuel with
  | zero => intro vis adds _; simp [run]
  | succ f ih =>
    intro vis adds h0
    have hseen : seen g vis c = true := by simp [seen, h0]
    have he : expand g vis [(v, c)] =
        { vis := vis ++ [c, g.unw c], preds := [plainNode g v c true], pushed := [plainNode g v c true] } := by
      rw [expand_cons_plain (by simp [hseen, hc])]
      simp [expand_nil, hseen, hs]
    have hty : (plainNode g v c true).ty = c := rfl
    simp only [run, stepWith, hty, hk, he, List.nil_append]
    exact ih _ _ (by simp [h0])

/-- The same class as graph.py saw it before 9671f4f (`ClassVar[A]` not recognised as a spelling of A). -/
def gClassVarOld : TyGraph :=
  { tys := [ti true false 0 true [(some ['x'], 1)], ti false false 0 true [(some ['x'], 1)]] }

/-- Cutting at qualified spellings is needed: without it the graph of `class A: x: ClassVar[A]` is not
    well-formed (`ClassVar[A]` contains itself through no cuttable type) and the loop never finishes. -/
theorem qualified_needed : wf gClassVarOld = false ∧ ∀ fuel, build gClassVarOld 0 fuel = none := by
  refine ⟨by decide, ?_⟩
  intro fuel
  cases fuel with
  | zero => simp [build, run, init]
  | succ f =>
    have hk0 : gClassVarOld.kids 0 = [(some ['x'], 1)] := rfl
    have hc : gClassVarOld.cuttable 1 = false := rfl
    have hs : gClassVarOld.stdlib 1 = false := rfl
    have hseen : seen gClassVarOld [0, gClassVarOld.unw 0] 1 = true := by decide
    have he : expand gClassVarOld [0, gClassVarOld.unw 0] [(some ['x'], 1)] =
        { vis := [0, gClassVarOld.unw 0] ++ [1, gClassVarOld.unw 1],
          preds := [plainNode gClassVarOld (some ['x']) 1 true],
          pushed := [plainNode gClassVarOld (some ['x']) 1 true] } := by
      rw [expand_cons_plain (by simp [hseen, hc])]
      simp [expand_nil, hseen, hs]
    have hty : (rootNode gClassVarOld 0).ty = 0 := rfl
    simp only [build, run, init, stepWith, hty, hk0, he, List.nil_append, Option.map_eq_none_iff]
    exact spins gClassVarOld (some ['x']) 1 rfl hc hs f _ _ (by simp)

end Typelib.C09
