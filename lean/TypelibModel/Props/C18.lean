/-
  C18 — Generic item and value iteration is lossless and non-destructive.

  The code under test is modelled by `iteritems` / `itervalues` (Model/Serdes.lean).  This file
  writes the *statement* of the property down a second time, as a specification in terms of what a
  value contains (`mappingPairs`, `fieldPairs`, `elements`, `indexed`, `isPair`), and proves that the
  model meets it for every value of the domain — the inputs the quantifier of the property names,
  minus the shapes Serdes.lean answers `unsupported` for (sets whose (index, element) pairs would
  depend on the hash order, first elements whose class is not modelled).  An instance of any
  structured class, annotated or not (slots-only, vars-only), is `.inst c fs` with `fs` the instance
  fields that are set, in definition order; a member of an enumeration without `str` mix-in is a
  structured object without public fields.  Outside the domain every value is either a scalar
  (TypeError from both functions) or unsupported by the model (`outside_domain`).

  An item is an `Item = R (Val × Val)`: what `for k, v in iteritems(x)` binds for that element
  (`unpackPair`), or the error the unpacking raises; items are delivered lazily, so the items before
  a failing one are delivered.

  Purity ("x is not modified") is not a theorem: the model is a function of the value, so it is
  definitional there.  It is observed on the real code by the oracle of harness/props/c18.py
  (deep copy before / after, and one-shot iterators are checked for full consumption by the
  consumer only).  What *is* a theorem about one-shot inputs: the iterator returned for `.iter xs`
  delivers `xs.length` items, the first element included, and nothing for `.iter []`.
-/
import TypelibModel.Lemmas.Iter
namespace Typelib.C18
open Typelib

/-! ## Specification -/

def classFlavour (env : Env) (c : Nat) : Option Flavour :=
  match env.cls c with
  | some ci => some ci.flavour
  | none => none

/-- The text a `str`-subclass enum member *is*. -/
def memberText (env : Env) (c i : Nat) : Option Str :=
  match env.cls c with
  | some ci =>
    if ci.mixin == .str then
      match ci.members[i]? with
      | some (_, .str s) => some s
      | _ => none
    else none
  | none => none

/-- A member of an enumeration without `str` mix-in (`enum.Enum`, `IntEnum`): a structured object
    all of whose instance attributes (`_value_`, `_name_`, …) are private.  (A member of a class the
    environment does not list is not a `str` either.) -/
def plainMember (env : Env) (c : Nat) : Bool :=
  match env.cls c with
  | some ci => !(ci.mixin == .str)
  | none => true

/-- The (key, value) pairs of a mapping. -/
def mappingPairs : Val → Option (List (Val × Val))
  | .dict kvs => some kvs
  | _ => none

def publicOnly (fs : List (Str × Val)) : List (Str × Val) := fs.filter fun f => f.1.head? != some '_'

/-- The (field, value) pairs the statement speaks of: every field of a named tuple, the public
    fields of any other structured object.  (`.inst c _` with `c` a TypedDict denotes no Python
    object — a TypedDict instance is a `dict`; `.opaque` is an instance of a class without
    annotations, slots or attributes; a member of an enumeration without `str` mix-in has private
    attributes only.) -/
def fieldPairs (env : Env) : Val → Option (List (Str × Val))
  | .inst c fs =>
    match classFlavour env c with
    | some .namedtuple => some fs
    | some .typeddict => none
    | some _ => some (publicOnly fs)
    | none => none
  | .opaque _ => some []
  | .member c _ => if plainMember env c then some [] else none
  | _ => none

/-- The elements of any other iterable, in iteration order. -/
def elements (env : Env) : Val → Option (List Val)
  | .list xs | .tuple xs | .deque xs | .iter xs | .set xs | .frozenset xs => some xs
  | .str s => some (chars s)
  | .member c i => (memberText env c i).map chars
  | _ => none

inductive Sized
  | notCollection
  | len (n : Nat)
  | unmodelled
  deriving DecidableEq, Repr

/-- `len(v)` if `v` is a collection. -/
def collSize (env : Env) : Val → Sized
  | .list xs | .tuple xs | .deque xs | .set xs | .frozenset xs => .len xs.length
  | .str s => .len s.length
  | .dict kvs => .len kvs.length
  | .inst c fs =>
    match classFlavour env c with
    | some .namedtuple => .len fs.length
    | some _ => .notCollection
    | none => .unmodelled
  | .member c i =>
    match env.cls c with
    | some ci =>
      if ci.mixin == .str then
        match memberText env c i with
        | some s => .len s.length
        | none => .unmodelled
      else .notCollection
    | none => .notCollection
  | .text _ _ | .uuid _ | .iter _ => .unmodelled
  | _ => .notCollection

/-- "a 2-element collection"; `none`: the class of `v` is outside the model. -/
def isPair (env : Env) (v : Val) : Option Bool :=
  match collSize env v with
  | .len n => some (n == 2)
  | .notCollection => some false
  | .unmodelled => none

/-- The values: of a mapping, of the (public) fields, otherwise the elements themselves. -/
def specValues (env : Env) (x : Val) : Option (List Val) :=
  match mappingPairs x with
  | some kvs => some (kvs.map Prod.snd)
  | none =>
    match fieldPairs env x with
    | some fs => some (fs.map Prod.snd)
    | none => elements env x

def fieldItem (f : Str × Val) : Item := .ok (.str f.1, f.2)

/-- The items of an iterable with elements `xs`: the given pairs if the first element is a 2-element
    collection, (index, element) otherwise; nothing for an empty one. -/
def specSeqItems (env : Env) : List Val → Option (List Item)
  | [] => some []
  | e :: es =>
    match isPair env e with
    | some true => some ((e :: es).map (unpackPair env))
    | some false => some ((indexed (e :: es)).map .ok)
    | none => none

/-- The items: (key, value) of a mapping, (field, value) of a structured object or named tuple, the
    given pairs of an iterable whose first element is a 2-element collection, (index, element)
    otherwise. -/
def specItems (env : Env) (x : Val) : Option (List Item) :=
  match mappingPairs x with
  | some kvs => some (kvs.map .ok)
  | none =>
    match fieldPairs env x with
    | some fs => some (fs.map fieldItem)
    | none =>
      match elements env x with
      | none => none
      | some xs => specSeqItems env xs

/-- Is `x` read as an iterable of pairs? -/
def givenPairs (env : Env) (x : Val) : Bool :=
  match mappingPairs x, fieldPairs env x, elements env x with
  | none, none, some (e :: _) => isPair env e == some true
  | _, _, _ => false

def ofSpec {α : Type} : Option α → R α
  | some a => .ok a
  | none => .error .unsupported

/-! ## Domain -/

/-- The inputs of the quantifier the model of `itervalues` covers. -/
def inDomainValues (env : Env) : Val → Bool
  | .dict _ => true
  | .inst c _ =>
    match classFlavour env c with
    | some .typeddict => false
    | some _ => true
    | none => false
  | .list _ | .tuple _ | .deque _ | .iter _ | .set _ | .frozenset _ | .str _ => true
  | .member c i => plainMember env c || (memberText env c i).isSome
  | .opaque _ => true
  | _ => false

def unpackable (env : Env) (v : Val) : Bool :=
  match unpackPair env v with
  | .error .unsupported => false
  | _ => true

/-- A sequence / one-shot iterator: the class of the first element is modelled, and if it makes the
    input an iterable of pairs, the unpacking of every element is. -/
def seqOk (env : Env) : List Val → Bool
  | [] => true
  | x :: xs =>
    match isPair env x with
    | none => false
    | some true => (x :: xs).all (unpackable env)
    | some false => true

/-- A set has no first element: all elements have the same shape, and a set of non-pairs has at most
    one element (the index of an element is its position in the hash order). -/
def setOk (env : Env) : List Val → Bool
  | [] => true
  | x :: xs =>
    (x :: xs).all (fun y => isPair env y == isPair env x)
      && !(isPair env x == some false && (x :: xs).length ≥ 2) && seqOk env (x :: xs)

/-- The inputs of the quantifier the model of `iteritems` covers. -/
def inDomainItems (env : Env) (x : Val) : Bool :=
  inDomainValues env x &&
    match x with
    | .list xs | .tuple xs | .deque xs | .iter xs => seqOk env xs
    | .set xs | .frozenset xs => setOk env xs
    | _ => true

/-! ## The model meets the specification -/

theorem classFlavour_eq (env : Env) (c : Nat) : flavourOf env c = classFlavour env c := by
  unfold flavourOf classFlavour; cases env.cls c <;> rfl

theorem isPrivate_eq (n : Str) : (!isPrivate n) = (n.head? != some '_') := by
  cases n with
  | nil => rfl
  | cons c cs =>
    by_cases h : c = '_'
    · subst h; rfl
    · unfold isPrivate
      split
      · rename_i heq; cases heq; exact absurd rfl h
      · simp [h]

theorem publicOnly_eq (fs : List (Str × Val)) : (fs.filter fun f => !isPrivate f.1) = publicOnly fs := by
  unfold publicOnly; congr 1; funext f; exact isPrivate_eq f.1

theorem memberText_some {env : Env} {c i : Nat} {s : Str} (h : memberText env c i = some s) :
    isStrMixin env c = true ∧ memberValue env c i = some (.str s) := by
  unfold memberText at h
  unfold isStrMixin memberValue
  cases hc : env.cls c with
  | none => simp [hc] at h
  | some ci =>
    simp only [hc] at h ⊢
    split at h
    · rename_i hm
      refine ⟨hm, ?_⟩
      cases hmem : ci.members[i]? with
      | none => simp [hmem] at h
      | some p =>
        obtain ⟨n, v⟩ := p
        simp only [hmem] at h
        cases v <;> simp at h
        simp [h]
    · cases h

theorem plainMember_eq (env : Env) (c : Nat) : plainMember env c = !isStrMixin env c := by
  unfold plainMember isStrMixin; cases env.cls c <;> rfl

/-- The two kinds of enumeration members the domain holds: without `str` mix-in (nothing yielded),
    or a `str` whose text is known. -/
theorem member_cases {env : Env} {c i : Nat} (h : (plainMember env c || (memberText env c i).isSome) = true) :
    (plainMember env c = true ∧ isStrMixin env c = false) ∨
      (plainMember env c = false ∧ ∃ s, memberText env c i = some s) := by
  rw [plainMember_eq] at h ⊢
  cases hm : isStrMixin env c with
  | false => exact .inl ⟨rfl, rfl⟩
  | true =>
    simp only [hm, Bool.not_true, Bool.false_or] at h
    exact .inr ⟨rfl, Option.isSome_iff_exists.mp h⟩

theorem isPair_eq (env : Env) (v : Val) : isPair env v = pairShaped env v := by
  cases v <;> simp only [isPair, collSize, pairShaped] <;> try rfl
  case inst c fs =>
    rw [classFlavour_eq]
    cases classFlavour env c with
    | none => rfl
    | some f => cases f <;> rfl
  case member c i =>
    unfold isStrMixin memberValue memberText
    cases hc : env.cls c with
    | none => simp
    | some ci =>
      simp only []
      cases hm : (ci.mixin == Mixin.str) with
      | false => simp
      | true =>
        simp only [if_true]
        cases hmem : ci.members[i]? with
        | none => simp
        | some p =>
          obtain ⟨n, v⟩ := p
          cases v <;> simp

theorem isPair_fun (env : Env) : isPair env = pairShaped env := funext (isPair_eq env)

/-- On sequences and one-shot iterators. -/
theorem itemsOfSeq_spec (env : Env) (xs : List Val) (h : seqOk env xs = true) :
    itemsOfSeq env xs = ofSpec (specSeqItems env xs) ∧ (specSeqItems env xs).isSome = true := by
  cases xs with
  | nil => exact ⟨rfl, rfl⟩
  | cons e es =>
    simp only [seqOk] at h
    simp only [itemsOfSeq, ← isPair_eq, enumerateFrom_zero, specSeqItems]
    cases hp : isPair env e with
    | none => simp [hp] at h
    | some b => cases b <;> exact ⟨rfl, rfl⟩

/-- A string is never an iterable of pairs: its elements are 1-character strings. -/
theorem specSeqItems_chars (env : Env) (s : Str) :
    specSeqItems env (chars s) = some ((indexed (chars s)).map .ok) := by
  cases s with
  | nil => rfl
  | cons c cs => rfl

theorem itemsOfSet_eq_seq (env : Env) (xs : List Val) (h : setOk env xs = true) :
    itemsOfSet env xs = itemsOfSeq env xs ∧ seqOk env xs = true := by
  cases xs with
  | nil => exact ⟨rfl, rfl⟩
  | cons e es =>
    simp only [setOk, Bool.and_eq_true, Bool.not_eq_true'] at h
    obtain ⟨⟨hall, hidx⟩, hseq⟩ := h
    refine ⟨?_, hseq⟩
    rw [isPair_fun] at hall hidx
    simp only [itemsOfSet, hall, if_true, hidx, Bool.false_eq_true, if_false]

/-- **`itervalues` meets its specification** on every input of the domain: it yields the values of a
    mapping, the (public) field values of a structured object or named tuple, and otherwise the
    elements themselves, in order. -/
theorem itervalues_spec (env : Env) (x : Val) (h : inDomainValues env x = true) :
    itervalues env x = ofSpec (specValues env x) ∧ (specValues env x).isSome = true := by
  cases x <;> simp only [inDomainValues, Bool.false_eq_true] at h <;>
    try (exact ⟨rfl, rfl⟩)
  case inst c fs =>
    simp only [itervalues, specValues, mappingPairs, fieldPairs, classFlavour_eq, publicOnly_eq]
    cases hf : classFlavour env c with
    | none => simp [hf] at h
    | some f => cases f <;> simp [hf] at h <;> exact ⟨rfl, rfl⟩
  case member c i =>
    rcases member_cases h with ⟨hp, hm⟩ | ⟨hp, s, hs⟩
    · simp [itervalues, specValues, mappingPairs, fieldPairs, hp, hm, ofSpec]
    · obtain ⟨h1, h2⟩ := memberText_some hs
      simp [itervalues, specValues, mappingPairs, fieldPairs, elements, hp, hs, h1, h2, ofSpec]

/-- **`iteritems` meets its specification** on every input of the domain. -/
theorem iteritems_spec (env : Env) (x : Val) (h : inDomainItems env x = true) :
    iteritems env x = ofSpec (specItems env x) ∧ (specItems env x).isSome = true := by
  simp only [inDomainItems, Bool.and_eq_true] at h
  obtain ⟨hv, hi⟩ := h
  cases x <;> simp only [inDomainValues, Bool.false_eq_true] at hv <;>
    try (exact ⟨rfl, rfl⟩)
  case list xs => exact itemsOfSeq_spec env xs hi
  case tuple xs => exact itemsOfSeq_spec env xs hi
  case deque xs => exact itemsOfSeq_spec env xs hi
  case iter xs => exact itemsOfSeq_spec env xs hi
  case set xs =>
    obtain ⟨h1, h2⟩ := itemsOfSet_eq_seq env xs hi
    have := itemsOfSeq_spec env xs h2
    simp only [iteritems, h1]
    exact this
  case frozenset xs =>
    obtain ⟨h1, h2⟩ := itemsOfSet_eq_seq env xs hi
    have := itemsOfSeq_spec env xs h2
    simp only [iteritems, h1]
    exact this
  case str s =>
    simp only [iteritems, enumerateFrom_zero, specItems, mappingPairs, fieldPairs, elements, specSeqItems_chars]
    exact ⟨rfl, rfl⟩
  case inst c fs =>
    simp only [iteritems, specItems, mappingPairs, fieldPairs, classFlavour_eq, publicOnly_eq]
    cases hf : classFlavour env c with
    | none => simp [hf] at hv
    | some f => cases f <;> simp [hf] at hv <;> exact ⟨rfl, rfl⟩
  case member c i =>
    rcases member_cases hv with ⟨hp, hm⟩ | ⟨hp, s, hs⟩
    · simp [iteritems, specItems, mappingPairs, fieldPairs, hp, hm, ofSpec]
    · obtain ⟨h1, h2⟩ := memberText_some hs
      simp only [iteritems, h1, h2, if_true, enumerateFrom_zero, specItems, mappingPairs, fieldPairs, elements, hs, hp,
        Bool.false_eq_true, if_false, Option.map_some, specSeqItems_chars]
      exact ⟨rfl, rfl⟩

/-! ## Every element exactly once, in order -/

theorem map_ok_snd (ps : List (Val × Val)) :
    (ps.map (Except.ok : Val × Val → Item)).map (Except.map Prod.snd) = (ps.map Prod.snd).map (Except.ok : Val → R Val) := by
  simp [List.map_map, Function.comp_def, Except.map]

/-- Specification level: the items and the values of the same input line up one to one — an
    iterable of pairs delivers each element, unpacked; everything else delivers (something, value). -/
theorem spec_items_values (env : Env) (x : Val) (items : List Item) (vs : List Val)
    (hi : specItems env x = some items) (hv : specValues env x = some vs) :
    if givenPairs env x = true then items = vs.map (unpackPair env)
    else items.map (Except.map Prod.snd) = vs.map .ok := by
  unfold specItems at hi
  unfold specValues at hv
  unfold givenPairs
  cases hm : mappingPairs x with
  | some kvs =>
    simp only [hm] at hi hv ⊢
    cases hi; cases hv
    simpa using map_ok_snd kvs
  | none =>
    simp only [hm] at hi hv ⊢
    cases hf : fieldPairs env x with
    | some fs =>
      simp only [hf] at hi hv ⊢
      cases hi; cases hv
      simp [fieldItem, List.map_map, Function.comp_def, Except.map]
    | none =>
      simp only [hf] at hi hv ⊢
      cases he : elements env x with
      | none => simp [he] at hi
      | some xs =>
        simp only [he, Option.some.injEq] at hi hv ⊢
        subst hv
        cases xs with
        | nil => simp only [specSeqItems, Option.some.injEq] at hi; subst hi; simp
        | cons e es =>
          simp only [specSeqItems] at hi
          cases hp : isPair env e with
          | none => simp [hp] at hi
          | some b =>
            cases b
            · simp only [hp, Option.some.injEq] at hi
              subst hi
              simp only [hp, beq_iff_eq, Option.some.injEq, Bool.false_eq_true, if_false]
              rw [map_ok_snd, indexed_snd]
            · simp only [hp, Option.some.injEq] at hi
              subst hi
              simp [hp]

theorem domain_items_values {env : Env} {x : Val} (h : inDomainItems env x = true) : inDomainValues env x = true := by
  simp only [inDomainItems, Bool.and_eq_true] at h; exact h.1

/-- **values_are_items_snd.** Where `x` is not read as an iterable of pairs (mappings, structured
    objects, named tuples, enumerations), `itervalues` yields exactly the second components of
    `iteritems`, position by position. -/
theorem values_are_items_snd (env : Env) (x : Val) (h : inDomainItems env x = true) (hp : givenPairs env x = false) :
    ∃ items vs, iteritems env x = .ok items ∧ itervalues env x = .ok vs ∧
      items.map (Except.map Prod.snd) = vs.map .ok := by
  obtain ⟨h1, h2⟩ := iteritems_spec env x h
  obtain ⟨h3, h4⟩ := itervalues_spec env x (domain_items_values h)
  obtain ⟨items, hi⟩ := Option.isSome_iff_exists.mp h2
  obtain ⟨vs, hv⟩ := Option.isSome_iff_exists.mp h4
  refine ⟨items, vs, by rw [h1, hi]; rfl, by rw [h3, hv]; rfl, ?_⟩
  have := spec_items_values env x items vs hi hv
  simpa [hp] using this

/-- Where `x` *is* read as an iterable of pairs, `itervalues` yields the elements themselves and
    `iteritems` the same elements, each unpacked by the consumer. -/
theorem values_are_given_pairs (env : Env) (x : Val) (h : inDomainItems env x = true) (hp : givenPairs env x = true) :
    ∃ items vs, iteritems env x = .ok items ∧ itervalues env x = .ok vs ∧ elements env x = some vs ∧
      items = vs.map (unpackPair env) := by
  obtain ⟨h1, h2⟩ := iteritems_spec env x h
  obtain ⟨h3, h4⟩ := itervalues_spec env x (domain_items_values h)
  obtain ⟨items, hi⟩ := Option.isSome_iff_exists.mp h2
  obtain ⟨vs, hv⟩ := Option.isSome_iff_exists.mp h4
  refine ⟨items, vs, by rw [h1, hi]; rfl, by rw [h3, hv]; rfl, ?_, ?_⟩
  · unfold givenPairs at hp
    unfold specValues at hv
    cases hm : mappingPairs x with
    | some _ => simp [hm] at hp
    | none =>
      cases hf : fieldPairs env x with
      | some _ => simp [hm, hf] at hp
      | none => simpa [hm, hf] using hv
  · have := spec_items_values env x items vs hi hv
    simpa [hp] using this

/-- **each_once.** On the domain both functions deliver one item per thing `x` contains (mapping
    values, field values, elements — `specValues`), in the same order: the counts agree, and the
    value lists are equal (`values_are_items_snd` / `values_are_given_pairs` give the contents). -/
theorem each_once (env : Env) (x : Val) (h : inDomainItems env x = true) :
    ∃ items vs, iteritems env x = .ok items ∧ itervalues env x = .ok vs ∧ specValues env x = some vs ∧
      items.length = vs.length := by
  obtain ⟨h1, h2⟩ := iteritems_spec env x h
  obtain ⟨h3, h4⟩ := itervalues_spec env x (domain_items_values h)
  obtain ⟨items, hi⟩ := Option.isSome_iff_exists.mp h2
  obtain ⟨vs, hv⟩ := Option.isSome_iff_exists.mp h4
  refine ⟨items, vs, by rw [h1, hi]; rfl, by rw [h3, hv]; rfl, hv, ?_⟩
  have := spec_items_values env x items vs hi hv
  split at this
  · rw [this, List.length_map]
  · have hl := congrArg List.length this
    simpa using hl

/-- The enumeration of a list is lossless: the second components are the list, the first components
    the indices `0 … len-1`, one item per element. -/
theorem enumerate_lossless (xs : List Val) :
    (indexed xs).map Prod.snd = xs ∧
      (indexed xs).map Prod.fst = (List.range xs.length).map (fun i => Val.int (Int.ofNat i)) ∧
      (indexed xs).length = xs.length :=
  ⟨indexed_snd xs, indexed_fst xs, indexed_length xs⟩

/-! ## One-shot iterators -/

/-- Nothing is yielded for an empty one-shot iterator (and nothing is raised). -/
theorem oneshot_empty (env : Env) : iteritems env (.iter []) = .ok [] ∧ itervalues env (.iter []) = .ok [] := ⟨rfl, rfl⟩

/-- `itervalues` of a one-shot iterator yields every element — for every element list. -/
theorem oneshot_values (env : Env) (xs : List Val) : itervalues env (.iter xs) = .ok xs := rfl

/-- Whenever `iteritems` of a one-shot iterator returns, the returned iterator delivers as many items
    as the input had elements: the peeked first element is not lost. No hypothesis on `xs`. -/
theorem oneshot_all_delivered (env : Env) (xs : List Val) (items : List Item)
    (h : iteritems env (.iter xs) = .ok items) : items.length = xs.length := by
  simp only [iteritems, itemsOfSeq] at h
  cases xs with
  | nil => simp at h; subst h; rfl
  | cons e es =>
    simp only [] at h
    cases hp : pairShaped env e with
    | none => simp [hp] at h
    | some b =>
      cases b <;> simp only [hp, Except.ok.injEq] at h <;> subst h
      · simp [enumerateFrom_length]
      · simp

/-- … and the first item is the first element's: `(0, e)`, or `e` itself unpacked if `e` makes the
    input an iterable of pairs. -/
theorem oneshot_first_included (env : Env) (e : Val) (es : List Val) (items : List Item)
    (h : iteritems env (.iter (e :: es)) = .ok items) :
    items.head? = some (if isPair env e = some true then unpackPair env e else .ok (.int 0, e)) := by
  simp only [iteritems, itemsOfSeq, ← isPair_eq] at h
  cases hp : isPair env e with
  | none => simp [hp] at h
  | some b =>
    cases b <;> simp only [hp, Except.ok.injEq] at h <;> subst h
    · simp [enumerateFrom]
    · simp

/-! ## Named tuples, private fields, given pairs -/

/-- **namedtuple_never_pairs.** A named tuple yields (field, value) for *every* field, whatever the
    fields hold — in particular when the first field is a 2-element value. -/
theorem namedtuple_never_pairs (env : Env) (c : Nat) (fs : List (Str × Val))
    (h : classFlavour env c = some .namedtuple) :
    iteritems env (.inst c fs) = .ok (fs.map fieldItem) ∧ itervalues env (.inst c fs) = .ok (fs.map Prod.snd) := by
  constructor
  · simp only [iteritems, classFlavour_eq, h] <;> rfl
  · simp only [itervalues, classFlavour_eq, h] <;> rfl

theorem namedtuple_keeps_all (env : Env) (c : Nat) (fs : List (Str × Val)) (items : List Item)
    (h : classFlavour env c = some .namedtuple) (hi : iteritems env (.inst c fs) = .ok items) :
    items.length = fs.length := by
  rw [(namedtuple_never_pairs env c fs h).1] at hi
  cases hi; simp

/-- **private_fields_skipped.** Any other structured object yields exactly its public fields, in
    declaration order: each yielded item is a public field, each public field is yielded. -/
theorem private_fields_skipped (env : Env) (c : Nat) (fs : List (Str × Val)) (fl : Flavour)
    (h : classFlavour env c = some fl) (hn : fl ≠ .namedtuple) :
    iteritems env (.inst c fs) = .ok ((publicOnly fs).map fieldItem) ∧
      itervalues env (.inst c fs) = .ok ((publicOnly fs).map Prod.snd) ∧
      (∀ f ∈ fs, (f ∈ publicOnly fs ↔ f.1.head? ≠ some '_')) := by
  refine ⟨?_, ?_, ?_⟩
  · cases fl <;>
      first
        | exact absurd rfl hn
        | (simp only [iteritems, classFlavour_eq, h, publicOnly_eq] <;> rfl)
  · cases fl <;>
      first
        | exact absurd rfl hn
        | (simp only [itervalues, classFlavour_eq, h, publicOnly_eq] <;> rfl)
  · intro f hf
    simp [publicOnly, hf]

def pairTuple (p : Val × Val) : Val := .tuple [p.1, p.2]
def pairList (p : Val × Val) : Val := .list [p.1, p.2]

theorem seq_pairs_given (env : Env) (mk : Val × Val → Val)
    (hs : ∀ p, pairShaped env (mk p) = some true) (hu : ∀ p, unpackPair env (mk p) = .ok p) (ps : List (Val × Val)) :
    itemsOfSeq env (ps.map mk) = .ok (ps.map .ok) := by
  cases ps with
  | nil => rfl
  | cons p ps =>
    simp only [List.map_cons, itemsOfSeq, hs, hu, List.map_map, Function.comp_def]

/-- **The given pairs.** A list / tuple / deque / one-shot iterator of 2-tuples (or 2-lists) yields
    exactly the given pairs, in order, none lost. -/
theorem pairs_given (env : Env) (ps : List (Val × Val)) :
    iteritems env (.list (ps.map pairTuple)) = .ok (ps.map .ok) ∧
    iteritems env (.tuple (ps.map pairTuple)) = .ok (ps.map .ok) ∧
    iteritems env (.deque (ps.map pairTuple)) = .ok (ps.map .ok) ∧
    iteritems env (.iter (ps.map pairTuple)) = .ok (ps.map .ok) ∧
    iteritems env (.iter (ps.map pairList)) = .ok (ps.map .ok) := by
  have h1 := seq_pairs_given env pairTuple (fun _ => rfl) (fun _ => rfl) ps
  have h2 := seq_pairs_given env pairList (fun _ => rfl) (fun _ => rfl) ps
  exact ⟨h1, h1, h1, h1, h2⟩

/-! ## The domain is the supported fragment -/

/-- On the domain the model never answers `unsupported`: not for the call, not for an item. -/
theorem domain_supported (env : Env) (x : Val) (h : inDomainItems env x = true) :
    ∃ items, iteritems env x = .ok items ∧ ∀ it ∈ items, it ≠ .error .unsupported := by
  obtain ⟨h1, h2⟩ := iteritems_spec env x h
  obtain ⟨items, hi⟩ := Option.isSome_iff_exists.mp h2
  refine ⟨items, by rw [h1, hi]; rfl, ?_⟩
  simp only [inDomainItems, Bool.and_eq_true] at h
  obtain ⟨hv, hd⟩ := h
  have seqCase : ∀ xs : List Val, seqOk env xs = true → ∀ its, specSeqItems env xs = some its →
      ∀ it ∈ its, it ≠ .error .unsupported := by
    intro xs hs its hits it hit
    cases xs with
    | nil => simp [specSeqItems] at hits; subst hits; cases hit
    | cons e es =>
      simp only [seqOk] at hs
      simp only [specSeqItems] at hits
      cases hp : isPair env e with
      | none => simp [hp] at hs
      | some b =>
        cases b
        · simp only [hp, Option.some.injEq] at hits
          subst hits
          obtain ⟨p, _, rfl⟩ := List.mem_map.mp hit
          intro hc; cases hc
        · simp only [hp, Option.some.injEq] at hits hs
          subst hits
          obtain ⟨y, hy, rfl⟩ := List.mem_map.mp hit
          have := List.all_eq_true.mp hs y hy
          intro hc
          simp [unpackable, hc] at this
  unfold specItems at hi
  cases hm : mappingPairs x with
  | some kvs =>
    simp only [hm, Option.some.injEq] at hi; subst hi
    intro it hit; obtain ⟨p, _, rfl⟩ := List.mem_map.mp hit; intro hc; cases hc
  | none =>
    simp only [hm] at hi
    cases hf : fieldPairs env x with
    | some fs =>
      simp only [hf, Option.some.injEq] at hi; subst hi
      intro it hit; obtain ⟨p, _, rfl⟩ := List.mem_map.mp hit; intro hc; cases hc
    | none =>
      simp only [hf] at hi
      cases he : elements env x with
      | none => simp [he] at hi
      | some xs =>
        simp only [he] at hi
        have hseq : seqOk env xs = true := by
          cases x <;> simp only [elements, Option.some.injEq, reduceCtorEq] at he <;>
            first
              | (subst he; exact hd)
              | (subst he; exact (itemsOfSet_eq_seq env _ hd).2)
              | skip
          case str s => subst he; cases s <;> rfl
          case member c i =>
            cases hs : memberText env c i with
            | none => simp [hs] at he
            | some s => simp only [hs, Option.map_some, Option.some.injEq] at he; subst he; cases s <;> rfl
        exact seqCase xs hseq items hi

theorem seqOk_of_supported (env : Env) (xs : List Val) (items : List Item)
    (h : itemsOfSeq env xs = .ok items) (hu : ∀ it ∈ items, it ≠ .error .unsupported) : seqOk env xs = true := by
  cases xs with
  | nil => rfl
  | cons e es =>
    simp only [itemsOfSeq, ← isPair_eq] at h
    simp only [seqOk]
    cases hp : isPair env e with
    | none => simp [hp] at h
    | some b =>
      cases b
      · rfl
      · simp only [hp, Except.ok.injEq] at h
        subst h
        simp only []
        apply List.all_eq_true.mpr
        intro y hy
        have := hu (unpackPair env y) (List.mem_map_of_mem hy)
        unfold unpackable
        split
        · rename_i heq; exact absurd heq this
        · rfl

/-- … and conversely: an input of the quantifier for which the model answers (call and every item)
    is in the domain.  So `inDomainItems` is exactly "quantifier ∩ supported by the model". -/
theorem domain_complete (env : Env) (x : Val) (hv : inDomainValues env x = true) (items : List Item)
    (h : iteritems env x = .ok items) (hu : ∀ it ∈ items, it ≠ .error .unsupported) : inDomainItems env x = true := by
  simp only [inDomainItems, hv, Bool.true_and]
  have setCase : ∀ xs : List Val, itemsOfSet env xs = .ok items → setOk env xs = true := by
    intro xs hs
    cases xs with
    | nil => rfl
    | cons e es =>
      simp only [itemsOfSet, ← isPair_fun] at hs
      simp only [setOk, Bool.and_eq_true, Bool.not_eq_true']
      split at hs
      · rename_i hall
        split at hs
        · cases hs
        · rename_i hidx
          exact ⟨⟨hall, by simpa using hidx⟩, seqOk_of_supported env _ items hs hu⟩
      · cases hs
  cases x <;> simp only [iteritems] at h <;>
    first
      | rfl
      | exact seqOk_of_supported env _ items h hu
      | exact setCase _ h

/-! ## Outside the quantifier: scalars raise TypeError, nothing else does -/

/-- Values that are neither iterable nor carry a `__dict__` (`vars(x)` raises TypeError): None, bool,
    int, float, Decimal, Fraction, PurePath, re.Pattern, date, datetime, time, timedelta. -/
def isScalar : Val → Bool
  | .none | .bool _ | .int _ | .float _ | .dec _ | .frac _ _ | .path _ | .pattern _
  | .date _ | .datetime _ _ | .time _ _ | .timedelta _ => true
  | _ => false

/-- `.inst c _` with `c` a TypedDict: not the encoding of any Python object (see `fieldPairs`). -/
def typedDictInst (env : Env) : Val → Bool
  | .inst c _ => classFlavour env c == some .typeddict
  | _ => false

/-- **scalars_raise_type.** Every scalar — Fraction, Decimal, float and PurePath like int and None —
    makes both functions raise TypeError at the call; no item is delivered. -/
theorem scalars_raise_type (env : Env) (x : Val) (h : isScalar x = true) :
    iteritems env x = .error .type ∧ itervalues env x = .error .type := by
  cases x <;> simp only [isScalar, Bool.false_eq_true] at h <;> exact ⟨rfl, rfl⟩

/-- **member_without_str_yields_nothing.** A member of an enumeration without `str` mix-in yields
    nothing (it is in the domain: a structured object without public fields). -/
theorem member_without_str_yields_nothing (env : Env) (c i : Nat) (h : plainMember env c = true) :
    inDomainItems env (.member c i) = true ∧ iteritems env (.member c i) = .ok [] ∧ itervalues env (.member c i) = .ok [] := by
  have hm : isStrMixin env c = false := by rw [plainMember_eq] at h; simpa using h
  simp [inDomainItems, inDomainValues, iteritems, itervalues, h, hm]

/-- **outside_domain.** The domain, the scalars and the unsupported rest partition the values: an
    input outside the domain either is a scalar (TypeError from both functions) or is answered
    `unsupported` by both (bytes-like, UUID, an instance of a class the environment does not list, a
    `str` member whose text is not a string) — so, with `itervalues_spec` / `iteritems_spec` /
    `domain_supported`, TypeError at the call is raised for scalars and for nothing else. -/
theorem outside_domain (env : Env) (x : Val) (h : inDomainValues env x = false) (ht : typedDictInst env x = false) :
    (isScalar x = true ∧ iteritems env x = .error .type ∧ itervalues env x = .error .type) ∨
      (isScalar x = false ∧ iteritems env x = .error .unsupported ∧ itervalues env x = .error .unsupported) := by
  cases x <;> simp only [inDomainValues, reduceCtorEq] at h <;>
    first
      | exact .inl ⟨rfl, rfl, rfl⟩
      | exact .inr ⟨rfl, rfl, rfl⟩
      | skip
  case inst c fs =>
    refine .inr ⟨rfl, ?_⟩
    simp only [typedDictInst, beq_eq_false_iff_ne, ne_eq] at ht
    simp only [iteritems, itervalues, classFlavour_eq]
    cases hf : classFlavour env c with
    | none => exact ⟨rfl, rfl⟩
    | some f => cases f <;> simp [hf] at h ht
  case member c i =>
    refine .inr ⟨rfl, ?_⟩
    simp only [Bool.or_eq_false_iff, plainMember_eq, Bool.not_eq_false', Option.isSome_eq_false_iff,
      Option.isNone_iff_eq_none] at h
    obtain ⟨hm, hn⟩ := h
    have hv : ∀ s, memberValue env c i ≠ some (.str s) := by
      intro s hs
      unfold isStrMixin at hm
      unfold memberValue at hs
      unfold memberText at hn
      cases hc : env.cls c with
      | none => simp [hc] at hm
      | some ci =>
        simp only [hc] at hm hs hn
        simp only [hm, if_true] at hn
        cases hmem : ci.members[i]? with
        | none => simp [hmem] at hs
        | some p =>
          obtain ⟨n, v⟩ := p
          simp only [hmem, Option.map_some, Option.some.injEq] at hs
          subst hs
          simp [hmem] at hn
    -- the `match memberValue …` of the model falls through to its default row (simp discharges the
    -- side condition of the match equation with `hv`)
    simp only [iteritems, itervalues, hm, if_true]
    exact ⟨trivial, trivial⟩

/-- Conversely, TypeError at the call comes from a scalar only. -/
theorem type_error_only_scalars (env : Env) (x : Val) (h : itervalues env x = .error .type) : isScalar x = true := by
  by_cases hd : inDomainValues env x = true
  · obtain ⟨h1, h2⟩ := itervalues_spec env x hd
    obtain ⟨vs, hv⟩ := Option.isSome_iff_exists.mp h2
    rw [h1, hv] at h; cases h
  · by_cases ht : typedDictInst env x = true
    · cases x <;> simp only [typedDictInst, Bool.false_eq_true] at ht
      case inst c fs =>
        simp only [beq_iff_eq] at ht
        simp [itervalues, classFlavour_eq, ht] at h
    · rcases outside_domain env x (by simpa using hd) (by simpa using ht) with ⟨hs, _, _⟩ | ⟨_, _, hu⟩
      · exact hs
      · rw [hu] at h; cases h

/-! ## Non-vacuity: concrete environments and values, evaluated by the model -/

def envEx : Env := [
  { flavour := .namedtuple, fields := [("a".toList, .scalar .str), ("b".toList, .scalar .int)] },
  { flavour := .plain, fields := [("a".toList, .scalar .int), ("_p".toList, .scalar .int)] },
  { flavour := .dataclass, fields := [("x".toList, .coll .vartuple (.scalar .int))] },
  { flavour := .plain, mixin := .none, members := [("m0".toList, .int 1), ("m1".toList, .str "ab".toList)] },
  { flavour := .plain, mixin := .str, members := [("m0".toList, .str "ab".toList)] },
  { flavour := .slots },
  { flavour := .plain } ]

/-- a named tuple whose first field is the 2-character string 'ab' -/
def ntAb : Val := .inst 0 [("a".toList, .str "ab".toList), ("b".toList, .int 1)]
/-- an instance with a private attribute -/
def plainP : Val := .inst 1 [("a".toList, .int 1), ("_p".toList, .int 2)]

example : inDomainItems envEx ntAb = true := by rfl
example : iteritems envEx ntAb = .ok [.ok (.str "a".toList, .str "ab".toList), .ok (.str "b".toList, .int 1)] := by rfl
example : givenPairs envEx ntAb = false := by rfl
example : inDomainItems envEx plainP = true := by rfl
example : iteritems envEx plainP = .ok [.ok (.str "a".toList, .int 1)] := by rfl
example : itervalues envEx plainP = .ok [.int 1] := by rfl
/-- a one-shot iterator of pairs: the peeked pair is delivered first -/
example : iteritems [] (.iter [.tuple [.int 1, .int 2], .tuple [.int 3, .int 4]]) = .ok [.ok (.int 1, .int 2), .ok (.int 3, .int 4)] := by rfl
example : givenPairs [] (.iter [.tuple [.int 1, .int 2], .tuple [.int 3, .int 4]]) = true := by rfl
/-- a one-shot iterator of non-pairs: the peeked element gets index 0 -/
example : iteritems [] (.iter [.int 7, .tuple [.int 1, .int 2]]) = .ok [.ok (.int 0, .int 7), .ok (.int 1, .tuple [.int 1, .int 2])] := by rfl
/-- the first element decides: a later non-pair surfaces when the consumer unpacks it -/
example : iteritems [] (.list [.tuple [.int 1, .int 2], .int 5]) = .ok [.ok (.int 1, .int 2), .error .type] := by rfl
example : inDomainItems [] (.list [.tuple [.int 1, .int 2], .int 5]) = true := by rfl
/-- a list of named tuples with two fields is an iterable of pairs -/
example : iteritems envEx (.list [ntAb]) = .ok [.ok (.str "ab".toList, .int 1)] := by rfl
example : iteritems [] (.str "ab".toList) = .ok [.ok (.int 0, .str "a".toList), .ok (.int 1, .str "b".toList)] := by rfl
example : iteritems [] (.dict [(.str "k".toList, .int 1)]) = .ok [.ok (.str "k".toList, .int 1)] := by rfl
/-- outside the domain (the model answers `unsupported`): indices of a set, a first element of an unmodelled class -/
example : inDomainItems [] (.set [.int 1, .int 2]) = false := by rfl
example : inDomainItems [] (.list [.uuid 1]) = false := by rfl
example : inDomainItems [] (.set [.tuple [.int 1, .int 2], .tuple [.int 3, .int 4]]) = true := by rfl
example : inDomainValues [] (.int 3) = false := by rfl
/-- an instance of a slots-only class without annotations (`__slots__ = ('a', '_b', 'c')`, whatever the
    constructor parameters are called): the public slots, in `__slots__` order -/
example : iteritems envEx (.inst 5 [("a".toList, .int 1), ("_b".toList, .int 2), ("c".toList, .int 3)])
    = .ok [.ok (.str "a".toList, .int 1), .ok (.str "c".toList, .int 3)] := by rfl
/-- an instance of a vars-only class: every public instance attribute, in assignment order, none read
    as a pair although the first one is a 2-tuple -/
example : itervalues envEx (.inst 6 [("a".toList, .tuple [.int 1, .int 2]), ("_h".toList, .int 2), ("extra".toList, .list [.int 1])])
    = .ok [.tuple [.int 1, .int 2], .list [.int 1]] := by rfl
example : inDomainItems envEx (.inst 6 [("a".toList, .tuple [.int 1, .int 2]), ("_h".toList, .int 2)]) = true
    ∧ givenPairs envEx (.inst 6 [("a".toList, .tuple [.int 1, .int 2]), ("_h".toList, .int 2)]) = false := ⟨rfl, rfl⟩
/-- a member of an enumeration without `str` mix-in (even one whose value is the 2-character 'ab'):
    in the domain, nothing yielded, and as an element it is not a pair -/
example : plainMember envEx 3 = true := by rfl
example : inDomainItems envEx (.member 3 1) = true := by rfl
example : iteritems envEx (.member 3 1) = .ok [] ∧ itervalues envEx (.member 3 1) = .ok [] := ⟨rfl, rfl⟩
example : iteritems envEx (.list [.member 3 1]) = .ok [.ok (.int 0, .member 3 1)] := by rfl
/-- … whereas a member of a `str` enumeration is its text -/
example : plainMember envEx 4 = false := by rfl
example : iteritems envEx (.member 4 0) = .ok [.ok (.int 0, .str "a".toList), .ok (.int 1, .str "b".toList)] := by rfl
/-- scalars: Fraction, Decimal, float, PurePath raise TypeError like int -/
example : isScalar (.frac 1 2) = true ∧ isScalar (.dec "1.5".toList) = true ∧ isScalar (.float "1.5".toList) = true
    ∧ isScalar (.path "a/b".toList) = true := ⟨rfl, rfl, rfl, rfl⟩
example : iteritems [] (.frac 1 2) = .error .type ∧ itervalues [] (.frac 1 2) = .error .type := ⟨rfl, rfl⟩
example : inDomainValues [] (.frac 1 2) = false ∧ typedDictInst [] (.frac 1 2) = false := ⟨rfl, rfl⟩
/-- the unsupported rest -/
example : inDomainValues [] (.uuid 1) = false ∧ isScalar (.uuid 1) = false ∧ iteritems [] (.uuid 1) = .error .unsupported := ⟨rfl, rfl, rfl⟩

end Typelib.C18
