/-
  C18 — Generic item and value iteration is lossless and non-destructive.

  The code under test is modelled by `iteritems` / `itervalues` (Model/Serdes.lean).  This file
  writes the *statement* of the property down a second time, as a specification in terms of what a
  value contains (`mappingPairs`, `fieldPairs`, `elements`, `indexed`, `isPair`), and proves that the
  model meets it for every value of the domain — the inputs the quantifier of the property names,
  minus the shapes Serdes.lean answers `unsupported` for (sets whose (index, element) pairs would
  depend on the hash order, first elements whose class is not modelled).

  An item is an `Item = R (Val × Val)`: what `for k, v in iteritems(x)` binds for that element
  (`unpackPair`), or the error the unpacking raises; items are delivered lazily, so the items before
  a failing one are delivered.

  Purity ("x is not modified") is not a theorem: the model is a function of the value, so it is
  definitional there.  It is observed on the real code by the oracle of harness/props/c18.py
  (deep copy before / after, and one-shot iterators are checked for full consumption by the
  consumer only).  What *is* a theorem about one-shot inputs: the iterator returned for `.iter xs`
  delivers `xs.length` items, the first element included, and nothing for `.iter []`.
-/
import TypelibModel.Lemmas.Iter
namespace Typelib.C18
open Typelib

/-! ## Specification -/

def classFlavour (env : Env) (c : Nat) : Option Flavour :=
  match env.cls c with
  | some ci => some ci.flavour
  | none => none

/-- The text a `str`-subclass enum member *is*. -/
def memberText (env : Env) (c i : Nat) : Option Str :=
  match env.cls c with
  | some ci =>
    if ci.mixin == .str then
      match ci.members[i]? with
      | some (_, .str s) => some s
      | _ => none
    else none
  | none => none

/-- The (key, value) pairs of a mapping. -/
def mappingPairs : Val → Option (List (Val × Val))
  | .dict kvs => some kvs
  | _ => none

def publicOnly (fs : List (Str × Val)) : List (Str × Val) := fs.filter fun f => f.1.head? != some '_'

/-- The (field, value) pairs the statement speaks of: every field of a named tuple, the public
    fields of any other structured object.  (`.inst c _` with `c` a TypedDict denotes no Python
    object — a TypedDict instance is a `dict`; `.opaque` is an instance of a class without
    annotations, slots or attributes.) -/
def fieldPairs (env : Env) : Val → Option (List (Str × Val))
  | .inst c fs =>
    match classFlavour env c with
    | some .namedtuple => some fs
    | some .typeddict => none
    | some _ => some (publicOnly fs)
    | none => none
  | .opaque _ => some []
  | _ => none

/-- The elements of any other iterable, in iteration order. -/
def elements (env : Env) : Val → Option (List Val)
  | .list xs | .tuple xs | .deque xs | .iter xs | .set xs | .frozenset xs => some xs
  | .str s => some (chars s)
  | .member c i => (memberText env c i).map chars
  | _ => none

inductive Sized
  | notCollection
  | len (n : Nat)
  | unmodelled
  deriving DecidableEq, Repr

/-- `len(v)` if `v` is a collection. -/
def collSize (env : Env) : Val → Sized
  | .list xs | .tuple xs | .deque xs | .set xs | .frozenset xs => .len xs.length
  | .str s => .len s.length
  | .dict kvs => .len kvs.length
  | .inst c fs =>
    match classFlavour env c with
    | some .namedtuple => .len fs.length
    | some _ => .notCollection
    | none => .unmodelled
  | .member c i =>
    match env.cls c with
    | some ci =>
      if ci.mixin == .str then
        match memberText env c i with
        | some s => .len s.length
        | none => .unmodelled
      else .notCollection
    | none => .notCollection
  | .text _ _ | .uuid _ | .iter _ => .unmodelled
  | _ => .notCollection

/-- "a 2-element collection"; `none`: the class of `v` is outside the model. -/
def isPair (env : Env) (v : Val) : Option Bool :=
  match collSize env v with
  | .len n => some (n == 2)
  | .notCollection => some false
  | .unmodelled => none

/-- The values: of a mapping, of the (public) fields, otherwise the elements themselves. -/
def specValues (env : Env) (x : Val) : Option (List Val) :=
  match mappingPairs x with
  | some kvs => some (kvs.map Prod.snd)
  | none =>
    match fieldPairs env x with
    | some fs => some (fs.map Prod.snd)
    | none => elements env x

def fieldItem (f : Str × Val) : Item := .ok (.str f.1, f.2)

/-- The items: (key, value) of a mapping, (field, value) of a structured object or named tuple, the
    given pairs of an iterable whose first element is a 2-element collection, (index, element)
    otherwise. -/
def specItems (env : Env) (x : Val) : Option (List Item) :=
  match mappingPairs x with
  | some kvs => some (kvs.map .ok)
  | none =>
    match fieldPairs env x with
    | some fs => some (fs.map fieldItem)
    | none =>
      match elements env x with
      | none => none
      | some [] => some []
      | some (e :: es) =>
        match isPair env e with
        | some true => some ((e :: es).map (unpackPair env))
        | some false => some ((indexed (e :: es)).map .ok)
        | none => none

/-- Is `x` read as an iterable of pairs? -/
def givenPairs (env : Env) (x : Val) : Bool :=
  match mappingPairs x, fieldPairs env x, elements env x with
  | none, none, some (e :: _) => isPair env e == some true
  | _, _, _ => false

def ofSpec {α : Type} : Option α → R α
  | some a => .ok a
  | none => .error .unsupported

/-! ## Domain -/

/-- The inputs of the quantifier the model of `itervalues` covers. -/
def inDomainValues (env : Env) : Val → Bool
  | .dict _ => true
  | .inst c _ =>
    match classFlavour env c with
    | some .typeddict => false
    | some _ => true
    | none => false
  | .list _ | .tuple _ | .deque _ | .iter _ | .set _ | .frozenset _ | .str _ => true
  | .member c i => (memberText env c i).isSome
  | .opaque _ => true
  | _ => false

def unpackable (env : Env) (v : Val) : Bool :=
  match unpackPair env v with
  | .error .unsupported => false
  | _ => true

/-- A sequence / one-shot iterator: the class of the first element is modelled, and if it makes the
    input an iterable of pairs, the unpacking of every element is. -/
def seqOk (env : Env) : List Val → Bool
  | [] => true
  | x :: xs =>
    match isPair env x with
    | none => false
    | some true => (x :: xs).all (unpackable env)
    | some false => true

/-- A set has no first element: all elements have the same shape, and a set of non-pairs has at most
    one element (the index of an element is its position in the hash order). -/
def setOk (env : Env) : List Val → Bool
  | [] => true
  | x :: xs =>
    (x :: xs).all (fun y => isPair env y == isPair env x)
      && !(isPair env x == some false && (x :: xs).length ≥ 2) && seqOk env (x :: xs)

/-- The inputs of the quantifier the model of `iteritems` covers. -/
def inDomainItems (env : Env) (x : Val) : Bool :=
  inDomainValues env x &&
    match x with
    | .list xs | .tuple xs | .deque xs | .iter xs => seqOk env xs
    | .set xs | .frozenset xs => setOk env xs
    | _ => true

/-! ## The model meets the specification -/

theorem classFlavour_eq (env : Env) (c : Nat) : flavourOf env c = classFlavour env c := by
  unfold flavourOf classFlavour; cases env.cls c <;> rfl

theorem isPrivate_eq (n : Str) : (!isPrivate n) = (n.head? != some '_') := by
  cases n with
  | nil => rfl
  | cons c cs =>
    by_cases h : c = '_'
    · subst h; rfl
    · simp only [List.head?_cons, bne, Option.some.injEq, beq_iff_eq, h]
      unfold isPrivate
      split
      · rename_i heq; cases heq; exact absurd rfl h
      · rfl

theorem publicOnly_eq (fs : List (Str × Val)) : (fs.filter fun f => !isPrivate f.1) = publicOnly fs := by
  unfold publicOnly; congr 1; funext f; exact isPrivate_eq f.1

theorem memberText_some {env : Env} {c i : Nat} {s : Str} (h : memberText env c i = some s) :
    isStrMixin env c = true ∧ memberValue env c i = some (.str s) := by
  unfold memberText at h
  unfold isStrMixin memberValue
  cases hc : env.cls c with
  | none => simp [hc] at h
  | some ci =>
    simp only [hc] at h ⊢
    split at h
    · rename_i hm
      refine ⟨hm, ?_⟩
      cases hmem : ci.members[i]? with
      | none => simp [hmem] at h
      | some p =>
        obtain ⟨n, v⟩ := p
        simp only [hmem] at h
        cases v <;> simp at h
        simp [h]
    · cases h

theorem isPair_eq (env : Env) (v : Val) : isPair env v = pairShaped env v := by
  cases v <;> simp only [isPair, collSize, pairShaped] <;> try rfl
  case inst c fs =>
    rw [classFlavour_eq]
    cases classFlavour env c with
    | none => rfl
    | some f => cases f <;> rfl
  case member c i =>
    unfold isStrMixin memberValue memberText
    cases hc : env.cls c with
    | none => simp
    | some ci =>
      simp only []
      cases hm : (ci.mixin == Mixin.str) with
      | false => simp
      | true =>
        simp only [if_true]
        cases hmem : ci.members[i]? with
        | none => simp
        | some p =>
          obtain ⟨n, v⟩ := p
          cases v <;> simp

theorem isPair_fun (env : Env) : isPair env = pairShaped env := funext (isPair_eq env)

/-- On sequences and one-shot iterators. -/
theorem itemsOfSeq_spec (env : Env) (xs : List Val) (h : seqOk env xs = true) :
    itemsOfSeq env xs =
      match xs with
      | [] => .ok []
      | e :: es =>
        match isPair env e with
        | some true => .ok ((e :: es).map (unpackPair env))
        | some false => .ok ((indexed (e :: es)).map .ok)
        | none => .error .unsupported := by
  cases xs with
  | nil => rfl
  | cons e es =>
    simp only [itemsOfSeq, ← isPair_eq, enumerateFrom_zero]
    cases isPair env e with
    | none => rfl
    | some b => cases b <;> rfl

theorem itemsOfSet_eq_seq (env : Env) (xs : List Val) (h : setOk env xs = true) :
    itemsOfSet env xs = itemsOfSeq env xs ∧ seqOk env xs = true := by
  cases xs with
  | nil => exact ⟨rfl, rfl⟩
  | cons e es =>
    simp only [setOk, Bool.and_eq_true, Bool.not_eq_true'] at h
    obtain ⟨⟨hall, hidx⟩, hseq⟩ := h
    refine ⟨?_, hseq⟩
    rw [isPair_fun] at hall hidx
    simp only [itemsOfSet, hall, if_true, hidx, Bool.false_eq_true, if_false]

/-- **`itervalues` meets its specification** on every input of the domain: it yields the values of a
    mapping, the (public) field values of a structured object or named tuple, and otherwise the
    elements themselves, in order. -/
theorem itervalues_spec (env : Env) (x : Val) (h : inDomainValues env x = true) :
    itervalues env x = ofSpec (specValues env x) ∧ (specValues env x).isSome = true := by
  cases x <;> simp only [inDomainValues, Bool.false_eq_true] at h <;>
    try (exact ⟨rfl, rfl⟩)
  case inst c fs =>
    simp only [itervalues, specValues, mappingPairs, fieldPairs, classFlavour_eq, publicOnly_eq]
    cases hf : classFlavour env c with
    | none => simp [hf] at h
    | some f => cases f <;> simp [hf] at h <;> exact ⟨rfl, rfl⟩
  case member c i =>
    cases hs : memberText env c i with
    | none => simp [hs] at h
    | some s =>
      obtain ⟨h1, h2⟩ := memberText_some hs
      simp [itervalues, specValues, mappingPairs, fieldPairs, elements, hs, h1, h2, ofSpec]

/-- **`iteritems` meets its specification** on every input of the domain. -/
theorem iteritems_spec (env : Env) (x : Val) (h : inDomainItems env x = true) :
    iteritems env x = ofSpec (specItems env x) ∧ (specItems env x).isSome = true := by
  simp only [inDomainItems, Bool.and_eq_true] at h
  obtain ⟨hv, hi⟩ := h
  have seqCase : ∀ xs : List Val, seqOk env xs = true →
      itemsOfSeq env xs = ofSpec (match xs with
        | [] => some []
        | e :: es =>
          match isPair env e with
          | some true => some ((e :: es).map (unpackPair env))
          | some false => some ((indexed (e :: es)).map Except.ok)
          | none => none) ∧
      (match xs with
        | [] => some ([] : List Item)
        | e :: es =>
          match isPair env e with
          | some true => some ((e :: es).map (unpackPair env))
          | some false => some ((indexed (e :: es)).map Except.ok)
          | none => none).isSome = true := by
    intro xs hs
    rw [itemsOfSeq_spec env xs hs]
    cases xs with
    | nil => exact ⟨rfl, rfl⟩
    | cons e es =>
      simp only [seqOk] at hs
      cases hp : isPair env e with
      | none => simp [hp] at hs
      | some b => cases b <;> exact ⟨rfl, rfl⟩
  cases x <;> simp only [inDomainValues, Bool.false_eq_true] at hv <;>
    try (exact ⟨rfl, rfl⟩)
  case list xs => exact seqCase xs hi
  case tuple xs => exact seqCase xs hi
  case deque xs => exact seqCase xs hi
  case iter xs => exact seqCase xs hi
  case set xs =>
    obtain ⟨h1, h2⟩ := itemsOfSet_eq_seq env xs hi
    have := seqCase xs h2
    simp only [iteritems, h1]
    exact this
  case frozenset xs =>
    obtain ⟨h1, h2⟩ := itemsOfSet_eq_seq env xs hi
    have := seqCase xs h2
    simp only [iteritems, h1]
    exact this
  case str s =>
    refine ⟨?_, ?_⟩
    · simp only [iteritems, enumerateFrom_zero, specItems, mappingPairs, fieldPairs, elements]
      cases hc : chars s with
      | nil => simp [indexed, ofSpec]
      | cons a as =>
        have : isPair env a = some false := by
          cases s with
          | nil => cases hc
          | cons ch cs => simp only [chars, List.map_cons, List.cons.injEq] at hc; rw [← hc.1]; rfl
        simp [this, ofSpec]
    · simp only [specItems, mappingPairs, fieldPairs, elements]
      cases hc : chars s with
      | nil => rfl
      | cons a as =>
        have : isPair env a = some false := by
          cases s with
          | nil => cases hc
          | cons ch cs => simp only [chars, List.map_cons, List.cons.injEq] at hc; rw [← hc.1]; rfl
        simp [this]
  case inst c fs =>
    simp only [iteritems, specItems, mappingPairs, fieldPairs, classFlavour_eq, publicOnly_eq]
    cases hf : classFlavour env c with
    | none => simp [hf] at hv
    | some f => cases f <;> simp [hf] at hv <;> exact ⟨rfl, rfl⟩
  case member c i =>
    cases hs : memberText env c i with
    | none => simp [hs] at hv
    | some s =>
      obtain ⟨h1, h2⟩ := memberText_some hs
      refine ⟨?_, ?_⟩
      · simp only [iteritems, h1, h2, if_true, enumerateFrom_zero, specItems, mappingPairs, fieldPairs, elements, hs,
          Option.map_some]
        cases hc : chars s with
        | nil => simp [indexed, ofSpec]
        | cons a as =>
          have : isPair env a = some false := by
            cases s with
            | nil => cases hc
            | cons ch cs => simp only [chars, List.map_cons, List.cons.injEq] at hc; rw [← hc.1]; rfl
          simp [this, ofSpec]
      · simp only [specItems, mappingPairs, fieldPairs, elements, hs, Option.map_some]
        cases hc : chars s with
        | nil => rfl
        | cons a as =>
          have : isPair env a = some false := by
            cases s with
            | nil => cases hc
            | cons ch cs => simp only [chars, List.map_cons, List.cons.injEq] at hc; rw [← hc.1]; rfl
          simp [this]

end Typelib.C18
