/-
  C17 — Type predicates agree with Python's own type semantics.

  Model: `Model/Inspect.lean` (origin / resolve_supertype / unwrap / the is*type family of inspection.py over a
  table of runtime facts).  The runtime's class lattice is DATA (`Gen/Lattice.lean`, regenerated from the running
  interpreter and the imported typelib tables on every run); the theorems are about typelib's handling of WRAPPERS
  and SPELLINGS over any table that passes the decidable predicate `adequate`, and `lattice_adequate` re-decides
  that predicate for the regenerated table.
-/
import TypelibModel.Model.Inspect
import TypelibModel.Gen.Lattice
namespace Typelib.C17
open Typelib Typelib.Inspect

variable (L : Lattice)

/-! ## 1. Table adequacy (decidable) -/

/-- A class (`isinstance(o, type)`) is a class for `inspect.isclass` and never makes `issubclass` raise, whatever
    the target. -/
def rowTotal (r : Row) : Bool :=
  !r.isClass || (r.inspectIsClass && allTargets.all fun X => decide (r.sub.getD X.idx 2 ≤ 1))
def rowsOk : Bool := L.rows.all rowTotal

/-- A row's typing origin is a class that is its own origin. -/
def rowOriginOk (r : Row) : Bool :=
  match r.origin with
  | some o => L.originOr o == o && L.isClass o
  | none => true
def originsOk : Bool := L.rows.all (rowOriginOk L)

/-- No key of GENERIC_TYPE_MAP is a builtin type (the `isbuiltintype` guard of `origin` never hides an entry). -/
def gtmKeyOk (e : Nat × Nat × Bool) : Bool := !(L.flag (·.builtin) e.1) && !(L.flag (·.builtinTy) e.1)
/-- Every value of GENERIC_TYPE_MAP is a concrete, instantiable, non-callable class OF THE KEY'S KIND
    (`issubclass(value, key)` per the runtime) and is not remapped itself. -/
def gtmValueOk (e : Nat × Nat × Bool) : Bool :=
  L.isClass e.2.1 && L.flag (·.instantiable) e.2.1 && !(L.flag (·.isAbstract) e.2.1) && e.2.2 &&
    (L.gtmGet e.2.1).isNone && !(L.callable e.2.1)
/-- A typing alias and the ABC it stands for are mapped alike (`typing.Sequence` ↦ what
    `collections.abc.Sequence` ↦). -/
def gtmSpellingOk (e : Nat × Nat × Bool) : Bool :=
  match L.getOrigin e.1 with
  | some o => L.gtmGet o == some e.2.1
  | none => true
def gtmOk : Bool := L.gtm.all fun e => gtmKeyOk L e && gtmValueOk L e && gtmSpellingOk L e

/-- Every member of `_COLLECTIONS` is a `collections.abc.Collection` per the runtime. -/
def rowCollectionOk (r : Row) : Bool := !r.inCollections || r.sub.getD Target.collection.idx 2 == 1
def collectionsOk : Bool := L.rows.all rowCollectionOk

/-- `origin` leaves the special form `s` alone. -/
def stableId (s : Nat) : Bool := (L.getOrigin s).isNone && (originM L (.base s)).isBaseId s

def nameIs (i : Nat) (s : Str) : Bool :=
  match L.row i with
  | some r => nameRow r == s
  | none => false

def specialIds : List Nat := [L.unionId, L.unionTypeId, L.optionalId, L.literalId, L.finalId, L.classVarId, L.callableId]

/-- The special forms are pairwise different objects; `Any`, `NoneType`, `...` are none of them. -/
def idsOk : Bool :=
  (specialIds L).Nodup && !(specialIds L).contains L.anyId && !(specialIds L).contains L.noneTypeId &&
  !(specialIds L).contains L.ellipsisId && L.anyId != L.ellipsisId && L.noneTypeId != L.ellipsisId

/-- `origin` fixes the special forms. -/
def stableOk : Bool :=
  stableId L L.unionId && stableId L L.unionTypeId && stableId L L.literalId && stableId L L.finalId &&
  stableId L L.optionalId

/-- … and they carry the names the name-based predicates look for. -/
def namesOk : Bool :=
  nameIs L L.unionId nUnion && nameIs L L.unionTypeId nUnionType && nameIs L L.optionalId nOptional &&
  nameIs L L.literalId nLiteral && nameIs L L.finalId nFinal

/-- No special form is a value of GENERIC_TYPE_MAP or the typing origin of a row. -/
def gtmAvoidsSpecial : Bool := L.gtm.all fun e => !(specialIds L).contains e.2.1
def rowAvoidsSpecial (r : Row) : Bool :=
  match r.origin with
  | some o => !(specialIds L).contains o
  | none => true
def originsAvoidSpecial : Bool := L.rows.all (rowAvoidsSpecial L)

/-- No special form is a tuple class; `NoneType` is recognised as None. -/
def miscOk : Bool :=
  L.tri .tuple L.unionId != 1 && L.tri .tuple L.unionTypeId != 1 && L.tri .tuple L.literalId != 1 &&
  L.tri .tuple L.finalId != 1 && L.flag (·.isNone) L.noneTypeId

def specialOk : Bool :=
  idsOk L && stableOk L && namesOk L && gtmAvoidsSpecial L && originsAvoidSpecial L && miscOk L &&
  L.tri .tuple L.tupleId == 1

/-- `NoneType` is an ordinary annotation (not a qualifier). -/
def noneOk : Bool := L.noneTypeId != L.finalId && L.noneTypeId != L.classVarId

def adequate : Bool := rowsOk L && originsOk L && gtmOk L && collectionsOk L && specialOk L && noneOk L

/-- **The regenerated table is adequate** (re-decided on every run against `Gen/Lattice.lean`). -/
theorem lattice_adequate : adequate Typelib.Gen.lattice = true := by decide +kernel

theorem lattice_size : Typelib.Gen.lattice.rows.length = 168 ∧ Typelib.Gen.lattice.gtm.length = 18 := by decide +kernel


/-! ## 2. Table lemmas -/

theorem row_mem {i : Nat} {r : Row} (h : L.row i = some r) : r ∈ L.rows := by
  unfold Lattice.row at h
  exact List.mem_of_getElem? h

theorem target_mem (X : Target) : X ∈ allTargets := by cases X <;> decide

theorem tri_le_of_class (hA : rowsOk L = true) {i : Nat} (hc : L.isClass i = true) (X : Target) :
    L.tri X i ≤ 1 := by
  unfold Lattice.isClass Lattice.flag at hc
  unfold Lattice.tri
  cases h : L.row i with
  | none => simp [h] at hc
  | some r =>
    simp only [h] at hc ⊢
    have hr := (List.all_eq_true.mp hA) r (row_mem L h)
    unfold rowTotal at hr
    simp only [hc, Bool.not_true, Bool.false_or, Bool.and_eq_true, List.all_eq_true, decide_eq_true_eq] at hr
    exact hr.2 X (target_mem X)

theorem class_inspect (hA : rowsOk L = true) {i : Nat} (hc : L.isClass i = true) :
    L.flag (·.inspectIsClass) i = true := by
  unfold Lattice.isClass Lattice.flag at hc
  unfold Lattice.flag
  cases h : L.row i with
  | none => simp [h] at hc
  | some r =>
    simp only [h] at hc ⊢
    have hr := (List.all_eq_true.mp hA) r (row_mem L h)
    unfold rowTotal at hr
    simp only [hc, Bool.not_true, Bool.false_or, Bool.and_eq_true] at hr
    exact hr.1

theorem triToOpt_of_le {t : Nat} (h : t ≤ 1) : triToOpt t = some (t == 1) := by
  match t, h with
  | 0, _ => rfl
  | 1, _ => rfl

theorem gtmGet_mem {k v : Nat} (h : L.gtmGet k = some v) : ∃ e ∈ L.gtm, e.1 = k ∧ e.2.1 = v := by
  unfold Lattice.gtmGet at h
  cases hf : L.gtm.find? (fun e => e.1 == k) with
  | none => simp [hf] at h
  | some e =>
    simp only [hf, Option.some.injEq] at h
    refine ⟨e, List.mem_of_find?_eq_some hf, ?_, h⟩
    have := List.find?_some hf
    simpa using this

theorem gtm_entry (hG : gtmOk L = true) {e : Nat × Nat × Bool} (he : e ∈ L.gtm) :
    gtmKeyOk L e = true ∧ gtmValueOk L e = true ∧ gtmSpellingOk L e = true := by
  have := (List.all_eq_true.mp hG) e he
  simpa [Bool.and_eq_true, and_assoc] using this

/-- `_check_generics` behind the `isbuiltintype` guard is just the map. -/
theorem genericsStep_base (hG : gtmOk L = true) (c : Nat) : genericsStep L (.base c) = .base (L.gtmOr c) := by
  unfold genericsStep
  cases hg : L.gtmGet c with
  | none => simp [checkGenerics, Lattice.gtmOr, hg]
  | some v =>
    obtain ⟨e, he, hk, _⟩ := gtmGet_mem L hg
    have hkey := (gtm_entry L hG he).1
    unfold gtmKeyOk at hkey
    rw [hk] at hkey
    simp only [Bool.and_eq_true, Bool.not_eq_true'] at hkey
    have hb : isbuiltintypeM L (.base c) = false := by
      simp [isbuiltintypeM, inBuiltin, resolveSupertype, hkey.1, hkey.2]
    simp [hb, checkGenerics]

theorem genericsStep_nonbase {a : Ann} (h : a.isBase = false) : genericsStep L a = a := by
  unfold genericsStep
  cases a <;> simp_all [checkGenerics, Ann.isBase]

theorem callableStep_nonbase {a : Ann} (h : a.isBase = false) : callableStep L a = a := by
  cases a <;> simp_all [callableStep, toTypingCallable, Ann.isBase]

theorem isBaseId_eq {a : Ann} {i : Nat} (h : a.isBaseId i = true) : a = .base i := by
  cases a <;> simp_all [Ann.isBaseId]


/-! ## 3. `origin` on NewType / alias chains of any length and interleaving -/

/-- Class-like cores: a base object or a subscripted generic (either spelling). -/
def coreForm : Ann → Bool
  | .base _ => true
  | .sub _ _ => true
  | _ => false

/-- NewType / alias chains of ANY length in ANY interleaving over a core — what `origin` resolves by itself
    (`resolve_supertype`, then `while istypealiastype: resolve_supertype(value)`). -/
def directOk : Ann → Bool
  | .newtype a => directOk a
  | .alias a => directOk a
  | a => coreForm a

theorem strip_core {a : Ann} (h : coreForm a = true) : strip a = a := by
  cases a <;> simp_all [coreForm, strip]

theorem originM_newtype (a : Ann) : originM L (.newtype a) = originM L a := by
  simp [originM, resolveSupertype]

theorem getOriginOr_core {a : Ann} (h : coreForm a = true) {c0 : Nat} (ht : tyOrigin L a = some c0) :
    getOriginOr L a = .base c0 := by
  cases a <;> simp_all [coreForm, tyOrigin, getOriginOr]

theorem originM_core {a : Ann} (h : coreForm a = true) {c0 : Nat} (ht : tyOrigin L a = some c0) :
    originM L a = callableStep L (genericsStep L (.base c0)) := by
  have : aliasLoop (classVarArg L (resolveSupertype a)) = a := by
    cases a <;> simp_all [coreForm, resolveSupertype, classVarArg, aliasLoop]
  unfold originM
  rw [this, getOriginOr_core L h ht]

/-- Under the wrappers of a chain there is a core. -/
theorem strip_directOk : ∀ a : Ann, directOk a = true → coreForm (strip a) = true
  | .newtype a, h => by simpa [strip] using strip_directOk a (by simpa [directOk] using h)
  | .alias a, h => by simpa [strip] using strip_directOk a (by simpa [directOk] using h)
  | .base _, _ => rfl
  | .sub _ _, _ => rfl
  | .union _ _, h => by simp [directOk, coreForm] at h
  | .literal _, h => by simp [directOk, coreForm] at h
  | .final _, h => by simp [directOk, coreForm] at h
  | .classvar _, h => by simp [directOk, coreForm] at h
  | .tvarBound _, h => by simp [directOk, coreForm] at h
  | .tvarConstr _, h => by simp [directOk, coreForm] at h
  | .tvarFree, h => by simp [directOk, coreForm] at h
  | .fref _ _, h => by simp [directOk, coreForm] at h

/-- The alias loop of `origin`: everything under the alias is stripped. -/
theorem originM_alias (v : Ann) :
    originM L (.alias v) = callableStep L (genericsStep L (getOriginOr L (strip v))) := rfl

theorem originM_direct : ∀ (a : Ann), directOk a = true → ∀ c0, tyOrigin L (strip a) = some c0 →
    originM L a = callableStep L (genericsStep L (.base c0))
  | .newtype a, hd, c0, ht => by
    rw [originM_newtype]
    exact originM_direct a (by simpa [directOk] using hd) c0 (by simpa [strip] using ht)
  | .alias a, hd, c0, ht => by
    have hc : coreForm (strip a) = true := strip_directOk a (by simpa [directOk] using hd)
    have ht' : tyOrigin L (strip a) = some c0 := by simpa [strip] using ht
    rw [originM_alias, getOriginOr_core L hc ht']
  | .base i, _, c0, ht => originM_core L (a := .base i) rfl (by simpa [strip] using ht)
  | .sub g args, _, c0, ht => originM_core L (a := .sub g args) rfl (by simpa [strip] using ht)
  | .union _ _, hd, _, _ => by simp [directOk, coreForm] at hd
  | .literal _, hd, _, _ => by simp [directOk, coreForm] at hd
  | .final _, hd, _, _ => by simp [directOk, coreForm] at hd
  | .classvar _, hd, _, _ => by simp [directOk, coreForm] at hd
  | .tvarBound _, hd, _, _ => by simp [directOk, coreForm] at hd
  | .tvarConstr _, hd, _, _ => by simp [directOk, coreForm] at hd
  | .tvarFree, hd, _, _ => by simp [directOk, coreForm] at hd
  | .fref _ _, hd, _, _ => by simp [directOk, coreForm] at hd

/-- The annotation resolves to the class `c`: a class per the runtime that `origin` does not replace by the special form
    `typing.Callable` (i.e. not `collections.abc.Callable`, not `type` or another metaclass). -/
structure ResolvesTo (a : Ann) (c : Nat) : Prop where
  resolved : resolvedClass L a = some c
  isClass : L.isClass c = true
  ordinaryClass : toTypingCallable L (.base c) = false

/-- A class that defines `__call__` — and is neither `collections.abc.Callable` nor a metaclass — is ordinary. -/
theorem ordinary_of_callable_class (hR : rowsOk L = true) {c : Nat} (hc : L.isClass c = true)
    (hn : c ≠ L.abcCallableId) (hm : L.tri .typeSub c ≠ 1) : toTypingCallable L (.base c) = false := by
  simp [toTypingCallable, class_inspect L hR hc, hn, hm]

/-- **`origin` returns the resolved class** on every NewType / alias chain (any length, any interleaving) over either
    spelling. -/
theorem originM_resolved (hA : adequate L = true) {a : Ann} (hd : directOk a = true) {c : Nat}
    (hr : ResolvesTo L a c) : originM L a = .base c := by
  have hG : gtmOk L = true := by
    simp only [adequate, Bool.and_eq_true] at hA; exact hA.1.1.1.2
  have hres := hr.resolved
  unfold resolvedClass at hres
  cases ht : tyOrigin L (strip a) with
  | none => simp [ht] at hres
  | some c0 =>
    simp only [ht, Option.map_some, Option.some.injEq] at hres
    rw [originM_direct L a hd c0 ht, genericsStep_base L hG, hres]
    simp [callableStep, hr.ordinaryClass]


/-! ## 4. Class-valued predicates built on `origin` agree with the runtime -/

theorem adequate_rows (hA : adequate L = true) : rowsOk L = true := by
  simp only [adequate, Bool.and_eq_true] at hA; exact hA.1.1.1.1.1
theorem adequate_origins (hA : adequate L = true) : originsOk L = true := by
  simp only [adequate, Bool.and_eq_true] at hA; exact hA.1.1.1.1.2
theorem adequate_gtm (hA : adequate L = true) : gtmOk L = true := by
  simp only [adequate, Bool.and_eq_true] at hA; exact hA.1.1.1.2
theorem adequate_collections (hA : adequate L = true) : collectionsOk L = true := by
  simp only [adequate, Bool.and_eq_true] at hA; exact hA.1.1.2
theorem adequate_special (hA : adequate L = true) : specialOk L = true := by
  simp only [adequate, Bool.and_eq_true] at hA; exact hA.1.2
theorem adequate_none (hA : adequate L = true) : noneOk L = true := by
  simp only [adequate, Bool.and_eq_true] at hA; exact hA.2

/-- The runtime's answer for a resolved class. -/
theorem specSub_resolved {a : Ann} {c : Nat} (hr : ResolvesTo L a c) (X : Target) :
    specSub L X a = some (L.tri X c == 1) := by
  simp [specSub, hr.resolved, hr.isClass]

/-- **Group A, generic form.**  For every target `X`, every chain of NewTypes and aliases of ANY length in ANY
    interleaving over a base or a subscripted generic in either spelling: `issubclass(origin(a), X)` does not raise and is the runtime's
    `issubclass(resolved class, X)`. -/
theorem predA_agrees (hA : adequate L = true) (X : Target) {a : Ann} (hd : directOk a = true) {c : Nat}
    (hr : ResolvesTo L a c) : predA L X a = specSub L X a := by
  rw [specSub_resolved L hr]
  unfold predA
  rw [originM_resolved L hA hd hr]
  exact triToOpt_of_le (tri_le_of_class L (adequate_rows L hA) hr.isClass X)

theorem isdatetype_agrees (hA : adequate L = true) {a : Ann} (hd : directOk a = true) {c : Nat}
    (hr : ResolvesTo L a c) : isdatetypeM L a = specSub L .date a := predA_agrees L hA .date hd hr
theorem isdatetimetype_agrees (hA : adequate L = true) {a : Ann} (hd : directOk a = true) {c : Nat}
    (hr : ResolvesTo L a c) : isdatetimetypeM L a = specSub L .datetime a := predA_agrees L hA .datetime hd hr
theorem istimetype_agrees (hA : adequate L = true) {a : Ann} (hd : directOk a = true) {c : Nat}
    (hr : ResolvesTo L a c) : istimetypeM L a = specSub L .time a := predA_agrees L hA .time hd hr
theorem istimedeltatype_agrees (hA : adequate L = true) {a : Ann} (hd : directOk a = true) {c : Nat}
    (hr : ResolvesTo L a c) : istimedeltatypeM L a = specSub L .timedelta a := predA_agrees L hA .timedelta hd hr
theorem isdecimaltype_agrees (hA : adequate L = true) {a : Ann} (hd : directOk a = true) {c : Nat}
    (hr : ResolvesTo L a c) : isdecimaltypeM L a = specSub L .decimal a := predA_agrees L hA .decimal hd hr
theorem isfractiontype_agrees (hA : adequate L = true) {a : Ann} (hd : directOk a = true) {c : Nat}
    (hr : ResolvesTo L a c) : isfractiontypeM L a = specSub L .fraction a := predA_agrees L hA .fraction hd hr
theorem isuuidtype_agrees (hA : adequate L = true) {a : Ann} (hd : directOk a = true) {c : Nat}
    (hr : ResolvesTo L a c) : isuuidtypeM L a = specSub L .uuid a := predA_agrees L hA .uuid hd hr
theorem isiterabletype_agrees (hA : adequate L = true) {a : Ann} (hd : directOk a = true) {c : Nat}
    (hr : ResolvesTo L a c) : isiterabletypeM L a = specSub L .iterable a := predA_agrees L hA .iterable hd hr
theorem isiteratortype_agrees (hA : adequate L = true) {a : Ann} (hd : directOk a = true) {c : Nat}
    (hr : ResolvesTo L a c) : isiteratortypeM L a = specSub L .iterator a := predA_agrees L hA .iterator hd hr

/-- `istupletype`: the extra `obj is tuple` disjunct changes nothing. -/
theorem istupletype_agrees (hA : adequate L = true) {a : Ann} (hd : directOk a = true) {c : Nat}
    (hr : ResolvesTo L a c) : istupletypeM L a = specSub L .tuple a := by
  unfold istupletypeM
  rw [predA_agrees L hA .tuple hd hr, originM_resolved L hA hd hr, specSub_resolved L hr]
  by_cases h : c = L.tupleId
  · have ht : L.tri .tuple L.tupleId = 1 := by
      have := adequate_special L hA
      simp only [specialOk, Bool.and_eq_true, beq_iff_eq] at this
      exact this.2
    simp [Ann.isBaseId, h, ht]
  · simp [Ann.isBaseId, h]

theorem inCollections_collection (hA : adequate L = true) {c : Nat} (h : L.flag (·.inCollections) c = true) :
    L.tri .collection c = 1 := by
  unfold Lattice.flag at h
  unfold Lattice.tri
  cases hrow : L.row c with
  | none => simp [hrow] at h
  | some r =>
    simp only [hrow] at h ⊢
    have := (List.all_eq_true.mp (adequate_collections L hA)) r (row_mem L hrow)
    simpa [rowCollectionOk, h] using this

/-- `iscollectiontype`: `_COLLECTIONS` adds nothing to `issubclass(·, Collection)`. -/
theorem iscollectiontype_agrees (hA : adequate L = true) {a : Ann} (hd : directOk a = true) {c : Nat}
    (hr : ResolvesTo L a c) : iscollectiontypeM L a = specSub L .collection a := by
  unfold iscollectiontypeM
  rw [predA_agrees L hA .collection hd hr, originM_resolved L hA hd hr, specSub_resolved L hr]
  by_cases h : L.flag (·.inCollections) c = true
  · simp [inCollections, h, inCollections_collection L hA h]
  · simp [inCollections, h]

/-- The documented meaning of `issequencetype` (its docstring): Collection-like membership. -/
def specSequence (a : Ann) : Option Bool := specSub L .collection a

/-- The resolved class is treated alike by the code (`in _COLLECTIONS or issubclass(·, Sequence)`) and by the
    documented meaning (`issubclass(·, Collection)`). -/
def seqConsistent (c : Nat) : Bool :=
  (L.flag (·.inCollections) c || L.tri .sequence c == 1) == (L.tri .collection c == 1)

/- Full statement (FALSE on the code as it stands, see `issequencetype_disagrees_witness`):
     directOk a → ResolvesTo L a c → issequencetypeM L a = specSequence L a. -/
theorem issequencetype_agrees_partial (hA : adequate L = true) {a : Ann} (hd : directOk a = true) {c : Nat}
    (hr : ResolvesTo L a c) (hs : seqConsistent L c = true) : issequencetypeM L a = specSequence L a := by
  unfold issequencetypeM specSequence
  rw [predA_agrees L hA .sequence hd hr, originM_resolved L hA hd hr, specSub_resolved L hr, specSub_resolved L hr]
  unfold seqConsistent at hs
  by_cases h : L.flag (·.inCollections) c = true
  · simp [inCollections, h] at hs ⊢; simp [hs]
  · simp [inCollections, h] at hs ⊢; simp [hs]

/-- `ismappingtype`: the Mapping ABC, or one of the library's named mapping-like classes (`_MAPPING_TYPES`). -/
def specMapping (a : Ann) : Option Bool :=
  match resolvedClass L a with
  | some c => if L.isClass c then some (L.tri .mappingTypes c == 1 || L.tri .mapping c == 1) else none
  | none => none

theorem ismappingtype_agrees (hA : adequate L = true) {a : Ann} (hd : directOk a = true) {c : Nat}
    (hr : ResolvesTo L a c) : ismappingtypeM L a = specMapping L a := by
  unfold ismappingtypeM specMapping
  rw [originM_resolved L hA hd hr]
  simp only [hr.resolved, hr.isClass, if_true, issubTri]
  have h1 := tri_le_of_class L (adequate_rows L hA) hr.isClass .mappingTypes
  have h2 := tri_le_of_class L (adequate_rows L hA) hr.isClass .mapping
  generalize L.tri .mappingTypes c = t1 at h1 ⊢
  generalize L.tri .mapping c = t2 at h2 ⊢
  match t1, t2, h1, h2 with
  | 0, 0, _, _ => rfl
  | 0, 1, _, _ => rfl
  | 1, 0, _, _ => rfl
  | 1, 1, _, _ => rfl

/-- "Never raises" inside the domain: each of the thirteen answers is `some _`. -/
theorem predA_never_raises (hA : adequate L = true) (X : Target) {a : Ann} (hd : directOk a = true) {c : Nat}
    (hr : ResolvesTo L a c) : (predA L X a).isSome = true := by
  rw [predA_agrees L hA X hd hr, specSub_resolved L hr]; rfl


/-! ## 5. Group B (`_safe_issubclass(origin(t), X)`) -/

/-- **Group B, generic form.**  The nine guarded predicates resolve wrappers and generics exactly like the origin-based
    family: on every NewType / alias chain over either spelling they are the runtime's `issubclass(resolved class, X)`.
    (They are `Bool`-valued in the model: a TypeError is answered `False`, they never raise.) -/
theorem predB_agrees (hA : adequate L = true) (X : Target) {a : Ann} (hd : directOk a = true) {c : Nat}
    (hr : ResolvesTo L a c) : some (predB L X a) = specSub L X a := by
  rw [specSub_resolved L hr]
  unfold predB
  rw [originM_resolved L hA hd hr]
  rfl

theorem isenumtype_agrees (hA : adequate L = true) {a : Ann} (hd : directOk a = true) {c : Nat}
    (hr : ResolvesTo L a c) : some (isenumtypeM L a) = specSub L .enum a := predB_agrees L hA .enum hd hr
theorem istexttype_agrees (hA : adequate L = true) {a : Ann} (hd : directOk a = true) {c : Nat}
    (hr : ResolvesTo L a c) : some (istexttypeM L a) = specSub L .text a := predB_agrees L hA .text hd hr
theorem isstringtype_agrees (hA : adequate L = true) {a : Ann} (hd : directOk a = true) {c : Nat}
    (hr : ResolvesTo L a c) : some (isstringtypeM L a) = specSub L .str a := predB_agrees L hA .str hd hr
theorem isbytestype_agrees (hA : adequate L = true) {a : Ann} (hd : directOk a = true) {c : Nat}
    (hr : ResolvesTo L a c) : some (isbytestypeM L a) = specSub L .bytes a := predB_agrees L hA .bytes hd hr
theorem isnumbertype_agrees (hA : adequate L = true) {a : Ann} (hd : directOk a = true) {c : Nat}
    (hr : ResolvesTo L a c) : some (isnumbertypeM L a) = specSub L .number a := predB_agrees L hA .number hd hr
theorem isintegertype_agrees (hA : adequate L = true) {a : Ann} (hd : directOk a = true) {c : Nat}
    (hr : ResolvesTo L a c) : some (isintegertypeM L a) = specSub L .int a := predB_agrees L hA .int hd hr
theorem isfloattype_agrees (hA : adequate L = true) {a : Ann} (hd : directOk a = true) {c : Nat}
    (hr : ResolvesTo L a c) : some (isfloattypeM L a) = specSub L .float a := predB_agrees L hA .float hd hr
theorem ispatterntype_agrees (hA : adequate L = true) {a : Ann} (hd : directOk a = true) {c : Nat}
    (hr : ResolvesTo L a c) : some (ispatterntypeM L a) = specSub L .pattern a := predB_agrees L hA .pattern hd hr
theorem ispathtype_agrees (hA : adequate L = true) {a : Ann} (hd : directOk a = true) {c : Nat}
    (hr : ResolvesTo L a c) : some (ispathtypeM L a) = specSub L .purepath a := predB_agrees L hA .purepath hd hr

/-! ## 6. `unwrap` -/

/-- Annotations below the qualifiers: NewType / alias / TypeVar-bound chains over anything but `Final` / `ClassVar`
    (bare or subscripted), which typing only allows outermost. -/
def innerOk : Ann → Bool
  | .newtype a => innerOk a
  | .alias a => innerOk a
  | .tvarBound a => innerOk a
  | .final _ => false
  | .classvar _ => false
  | .base i => i != L.finalId && i != L.classVarId
  | .sub g _ => g != L.finalId && g != L.classVarId
  | _ => true

/-- Legal nestings of the qualifiers: `Final[...]` / `ClassVar[...]` outermost only. -/
def legal : Ann → Bool
  | .final a => innerOk L a
  | .classvar a => innerOk L a
  | a => innerOk L a

/-- `callableStep ∘ genericsStep ∘ getOriginOr`: the tail of `origin` after the wrappers are gone. -/
def tailM (w : Ann) : Ann := callableStep L (genericsStep L (getOriginOr L w))

theorem special_ne (hA : adequate L = true) :
    L.unionId ≠ L.finalId ∧ L.unionTypeId ≠ L.finalId ∧ L.literalId ≠ L.finalId ∧ L.callableId ≠ L.finalId ∧
    L.anyId ≠ L.finalId ∧ L.anyId ≠ L.classVarId ∧ L.literalId ≠ L.unionId ∧ L.literalId ≠ L.unionTypeId ∧
    L.finalId ≠ L.literalId ∧ L.callableId ≠ L.literalId ∧ L.classVarId ≠ L.finalId ∧ L.classVarId ≠ L.literalId := by
  have h := adequate_special L hA
  simp only [specialOk, idsOk, specialIds, Bool.and_eq_true, decide_eq_true_eq, List.nodup_cons, List.mem_cons,
    List.contains_cons, Bool.not_eq_true', Bool.or_eq_false_iff, beq_eq_false_iff_ne, bne_iff_ne, ne_eq,
    not_or] at h
  obtain ⟨⟨⟨⟨⟨⟨⟨⟨hnd, hany⟩, _⟩, _⟩, _⟩, _⟩, _⟩, _⟩, _⟩ := h
  simp only [List.not_mem_nil, List.contains_nil, not_false_eq_true, and_true, List.nodup_nil] at hnd hany
  refine ⟨?_, ?_, ?_, ?_, ?_, ?_, ?_, ?_, ?_, ?_, ?_, ?_⟩ <;> (intro heq; simp_all)


theorem resolve_idem : ∀ a : Ann, resolveSupertype (resolveSupertype a) = resolveSupertype a
  | .newtype a => by simpa [resolveSupertype] using resolve_idem a
  | .base _ => rfl | .sub _ _ => rfl | .union _ _ => rfl | .literal _ => rfl | .final _ => rfl
  | .classvar _ => rfl | .alias _ => rfl | .tvarBound _ => rfl | .tvarConstr _ => rfl | .tvarFree => rfl
  | .fref _ _ => rfl

theorem originM_resolve (a : Ann) : originM L a = originM L (resolveSupertype a) := by
  unfold originM; rw [resolve_idem]

theorem resolve_inner : ∀ a : Ann, innerOk L a = true →
    innerOk L (resolveSupertype a) = true ∧ (resolveSupertype a).isNewtype = false
  | .newtype a, h => by simpa [resolveSupertype] using resolve_inner a (by simpa [innerOk] using h)
  | .base _, h => ⟨h, rfl⟩ | .sub _ _, h => ⟨h, rfl⟩ | .union _ _, h => ⟨h, rfl⟩ | .literal _, h => ⟨h, rfl⟩
  | .final _, h => ⟨h, rfl⟩ | .classvar _, h => ⟨h, rfl⟩ | .alias _, h => ⟨h, rfl⟩
  | .tvarBound _, h => ⟨h, rfl⟩ | .tvarConstr _, h => ⟨h, rfl⟩ | .tvarFree, h => ⟨h, rfl⟩ | .fref _ _, h => ⟨h, rfl⟩

/-- `origin` fixes a stable special form. -/
theorem stable_tail {s : Nat} (h : stableId L s = true) : callableStep L (genericsStep L (.base s)) = .base s := by
  unfold stableId at h
  simp only [Bool.and_eq_true, Option.isNone_iff_eq_none] at h
  have ho : L.originOr s = s := by simp [Lattice.originOr, h.1]
  have := originM_core L (a := .base s) rfl (c0 := s) (by simp [tyOrigin, ho])
  rw [← this]
  exact isBaseId_eq h.2

theorem stable_of (hA : adequate L = true) :
    stableId L L.unionId = true ∧ stableId L L.unionTypeId = true ∧ stableId L L.literalId = true ∧
    stableId L L.finalId = true ∧ stableId L L.optionalId = true := by
  have h := adequate_special L hA
  simp only [specialOk, stableOk, Bool.and_eq_true] at h
  exact ⟨h.1.1.1.1.1.2.1.1.1.1, h.1.1.1.1.1.2.1.1.1.2, h.1.1.1.1.1.2.1.1.2, h.1.1.1.1.1.2.1.2, h.1.1.1.1.1.2.2⟩

/-- The id `origin` computes from a base id is never one of the special forms unless it started there. -/
theorem gtmOr_originOr_not_special (hA : adequate L = true) {i s : Nat} (hs : s ∈ specialIds L) (hi : i ≠ s) :
    L.gtmOr (L.originOr i) ≠ s := by
  have hsp := adequate_special L hA
  simp only [specialOk, Bool.and_eq_true] at hsp
  have hgtm : gtmAvoidsSpecial L = true := hsp.1.1.1.2
  have hor : originsAvoidSpecial L = true := hsp.1.1.2
  have h1 : L.originOr i ≠ s := by
    unfold Lattice.originOr Lattice.getOrigin
    cases hrow : L.row i with
    | none => simpa using hi
    | some r =>
      cases ho : r.origin with
      | none => simpa [ho] using hi
      | some o =>
        have := (List.all_eq_true.mp hor) r (row_mem L hrow)
        simp only [rowAvoidsSpecial, ho, Bool.not_eq_true', List.contains_eq_mem, decide_eq_false_iff_not] at this
        simp only [ho]
        intro heq; rw [heq] at this; exact this hs
  unfold Lattice.gtmOr
  cases hg : L.gtmGet (L.originOr i) with
  | none => simpa using h1
  | some v =>
    obtain ⟨e, he, _, hv⟩ := gtmGet_mem L hg
    have := (List.all_eq_true.mp hgtm) e he
    simp only [Bool.not_eq_true', List.contains_eq_mem, decide_eq_false_iff_not, hv] at this
    intro heq; simp only at heq; rw [heq] at this; exact this hs

theorem final_mem_special : L.finalId ∈ specialIds L := by simp [specialIds]
theorem literal_mem_special : L.literalId ∈ specialIds L := by simp [specialIds]
theorem callable_mem_special : L.callableId ∈ specialIds L := by simp [specialIds]

/-- What `origin` computes from a base id `i` is the special form `s` only if `i` is. -/
theorem tail_base_not (hA : adequate L = true) {i s : Nat} (hs : s ∈ specialIds L) (hi : i ≠ s)
    (hcs : L.callableId ≠ s) : (callableStep L (genericsStep L (.base (L.originOr i)))).isBaseId s = false := by
  rw [genericsStep_base L (adequate_gtm L hA)]
  unfold callableStep
  have := gtmOr_originOr_not_special L hA hs hi
  by_cases hc : toTypingCallable L (.base (L.gtmOr (L.originOr i))) = true
  · simp [hc, Ann.isBaseId, hcs]
  · simp [hc, Ann.isBaseId, this]

theorem tailM_nonbase {w : Ann} (h : (getOriginOr L w).isBase = false) : tailM L w = getOriginOr L w := by
  unfold tailM; rw [genericsStep_nonbase L h, callableStep_nonbase L h]

/-- Below the qualifiers, `origin` is never `Final`. -/
theorem tail_not_final (hA : adequate L = true) : ∀ w : Ann, innerOk L w = true →
    (tailM L w).isBaseId L.finalId = false := by
  intro w hw
  obtain ⟨hu, hut, hl, hc, _, _, _, _, _, _, _, _⟩ := special_ne L hA
  obtain ⟨su, sut, sl, _, _⟩ := stable_of L hA
  cases w with
  | base i =>
    simp only [innerOk, Bool.and_eq_true, bne_iff_ne, ne_eq] at hw
    exact tail_base_not L hA (final_mem_special L) hw.1 hc
  | sub g args =>
    simp only [innerOk, Bool.and_eq_true, bne_iff_ne, ne_eq] at hw
    exact tail_base_not L hA (final_mem_special L) hw.1 hc
  | union sp ms =>
    cases sp <;> simp [tailM, getOriginOr, stable_tail L su, stable_tail L sut, Ann.isBaseId, hu, hut]
  | literal h => simp [tailM, getOriginOr, stable_tail L sl, Ann.isBaseId, hl]
  | final a => simp [innerOk] at hw
  | classvar a => simp [innerOk] at hw
  | newtype a => rw [tailM_nonbase L (by rfl)]; rfl
  | alias a => rw [tailM_nonbase L (by rfl)]; rfl
  | tvarBound a => rw [tailM_nonbase L (by rfl)]; rfl
  | tvarConstr a => rw [tailM_nonbase L (by rfl)]; rfl
  | tvarFree => rw [tailM_nonbase L (by rfl)]; rfl
  | fref l b => rw [tailM_nonbase L (by rfl)]; rfl


theorem strip_inner : ∀ a : Ann, innerOk L a = true → innerOk L (strip a) = true
  | .newtype a, h => by simpa [strip] using strip_inner a (by simpa [innerOk] using h)
  | .alias a, h => by simpa [strip] using strip_inner a (by simpa [innerOk] using h)
  | .base _, h => h | .sub _ _, h => h | .union _ _, h => h | .literal _, h => h | .final _, h => h
  | .classvar _, h => h | .tvarBound _, h => h | .tvarConstr _, h => h | .tvarFree, h => h | .fref _ _, h => h

theorem isfinal_inner (hA : adequate L = true) (a : Ann) (h : innerOk L a = true) : isfinalM L a = false := by
  obtain ⟨hr, hn⟩ := resolve_inner L a h
  unfold isfinalM
  rw [originM_resolve]
  generalize resolveSupertype a = r at hr hn
  cases r with
  | alias v => exact tail_not_final L hA (strip v) (strip_inner L v (by simpa [innerOk] using hr))
  | newtype x => simp [Ann.isNewtype] at hn
  | classvar x => simp [innerOk] at hr
  | final x => simp [innerOk] at hr
  | base i => exact tail_not_final L hA (.base i) hr
  | sub g args => exact tail_not_final L hA (.sub g args) hr
  | union sp ms => exact tail_not_final L hA (.union sp ms) hr
  | literal hl => exact tail_not_final L hA (.literal hl) hr
  | tvarBound b => exact tail_not_final L hA (.tvarBound b) hr
  | tvarConstr cs => exact tail_not_final L hA (.tvarConstr cs) hr
  | tvarFree => exact tail_not_final L hA .tvarFree hr
  | fref l b => exact tail_not_final L hA (.fref l b) hr

theorem isclassvar_inner (a : Ann) (h : innerOk L a = true) : isclassvartypeM L a = false := by
  obtain ⟨hr, hn⟩ := resolve_inner L a h
  unfold isclassvartypeM
  generalize resolveSupertype a = r at hr hn
  cases r <;> simp_all [isClassVarResolved, innerOk]

theorem shouldUnwrap_inner (hA : adequate L = true) (a : Ann) (h : innerOk L a = true) :
    shouldUnwrapM L a = false := by
  simp [shouldUnwrapM, isfinal_inner L hA a h, isclassvar_inner L a h]

/-- Below the qualifiers `unwrap` removes every NewType / alias / TypeVar layer. -/
theorem unwrap_inner (hA : adequate L = true) : ∀ a : Ann, innerOk L a = true → unwrapM L a = some (core L a)
  | .newtype a, h => by
    have hs := shouldUnwrap_inner L hA (.newtype a) h
    simp only [unwrapM, hs, core, Bool.false_eq_true, if_false]
    exact unwrap_inner hA a (by simpa [innerOk] using h)
  | .alias a, h => by
    have hs := shouldUnwrap_inner L hA (.alias a) h
    simp only [unwrapM, hs, core, Bool.false_eq_true, if_false]
    exact unwrap_inner hA a (by simpa [innerOk] using h)
  | .tvarBound b, h => by
    simp only [unwrapM, core]
    exact unwrap_inner hA b (by simpa [innerOk] using h)
  | .tvarConstr _, _ => rfl
  | .tvarFree, _ => rfl
  | .base i, h => by
    have hs := shouldUnwrap_inner L hA (.base i) h
    simp [unwrapM, hs, core]
  | .sub _ _, _ => rfl
  | .union _ _, _ => rfl
  | .literal _, _ => rfl
  | .fref _ _, _ => rfl
  | .final _, h => by simp [innerOk] at h
  | .classvar _, h => by simp [innerOk] at h

theorem originM_final (hA : adequate L = true) (x : Ann) : originM L (.final x) = .base L.finalId := by
  have : originM L (.final x) = callableStep L (genericsStep L (.base L.finalId)) := rfl
  rw [this, stable_tail L (stable_of L hA).2.2.2.1]

theorem shouldUnwrap_final (hA : adequate L = true) (x : Ann) : shouldUnwrapM L (.final x) = true := by
  simp [shouldUnwrapM, isfinalM, originM_final L hA, Ann.isBaseId]

/-- **`unwrap` strips every wrapper** — Final / ClassVar outermost, then NewType / alias / TypeVar-bound layers in any
    interleaving and of any length — and returns the annotation they stand for. -/
theorem unwrap_strips (hA : adequate L = true) {a : Ann} (h : legal L a = true) : unwrapM L a = some (core L a) := by
  cases a with
  | final x =>
    simp only [unwrapM, shouldUnwrap_final L hA, if_true, core]
    exact unwrap_inner L hA x (by simpa [legal] using h)
  | classvar x =>
    have hs : shouldUnwrapM L (.classvar x) = true := by
      simp [shouldUnwrapM, isclassvartypeM, resolveSupertype, isClassVarResolved]
    simp only [unwrapM, hs, if_true, core]
    exact unwrap_inner L hA x (by simpa [legal] using h)
  | base i => exact unwrap_inner L hA _ h
  | sub g args => exact unwrap_inner L hA _ h
  | union sp ms => exact unwrap_inner L hA _ h
  | literal hn => exact unwrap_inner L hA _ h
  | newtype x => exact unwrap_inner L hA _ h
  | alias x => exact unwrap_inner L hA _ h
  | tvarBound b => exact unwrap_inner L hA _ h
  | tvarConstr cs => exact unwrap_inner L hA _ h
  | tvarFree => exact unwrap_inner L hA _ h
  | fref l b => exact unwrap_inner L hA _ h

/-- What `unwrap` returns carries no wrapper. -/
theorem core_not_wrapper : ∀ a : Ann, isWrapper (core L a) = false
  | .final a => by simpa [core] using core_not_wrapper a
  | .classvar a => by simpa [core] using core_not_wrapper a
  | .alias a => by simpa [core] using core_not_wrapper a
  | .newtype a => by simpa [core] using core_not_wrapper a
  | .tvarBound a => by simpa [core] using core_not_wrapper a
  | .tvarConstr _ => rfl
  | .tvarFree => rfl
  | .base _ => rfl
  | .sub _ _ => rfl
  | .union _ _ => rfl
  | .literal _ => rfl
  | .fref _ _ => rfl

/-- **`unwrap` is idempotent** (every annotation, legal or not). -/
theorem unwrap_idem (hA : adequate L = true) : ∀ (a b : Ann), unwrapM L a = some b → unwrapM L b = some b
  | .final a, b, h => by
    by_cases hs : shouldUnwrapM L (.final a) = true
    · simp only [unwrapM, hs, if_true] at h; exact unwrap_idem hA a b h
    · have hs' : _ = false := Bool.eq_false_iff.mpr hs
      simp only [unwrapM, hs', Bool.false_eq_true, if_false, Option.some.injEq] at h; subst h; simp [unwrapM, hs']
  | .classvar a, b, h => by
    by_cases hs : shouldUnwrapM L (.classvar a) = true
    · simp only [unwrapM, hs, if_true] at h; exact unwrap_idem hA a b h
    · have hs' : _ = false := Bool.eq_false_iff.mpr hs
      simp only [unwrapM, hs', Bool.false_eq_true, if_false, Option.some.injEq] at h; subst h; simp [unwrapM, hs']
  | .alias a, b, h => by
    by_cases hs : shouldUnwrapM L (.alias a) = true
    · simp [unwrapM, hs] at h
    · have hs' : _ = false := Bool.eq_false_iff.mpr hs
      simp only [unwrapM, hs', Bool.false_eq_true, if_false] at h; exact unwrap_idem hA a b h
  | .newtype a, b, h => by
    by_cases hs : shouldUnwrapM L (.newtype a) = true
    · simp [unwrapM, hs] at h
    · have hs' : _ = false := Bool.eq_false_iff.mpr hs
      simp only [unwrapM, hs', Bool.false_eq_true, if_false] at h; exact unwrap_idem hA a b h
  | .tvarBound a, b, h => by simp only [unwrapM] at h; exact unwrap_idem hA a b h
  | .tvarConstr cs, b, h => by simp only [unwrapM, Option.some.injEq] at h; subst h; rfl
  | .tvarFree, b, h => by
    simp only [unwrapM, Option.some.injEq] at h; subst h
    obtain ⟨_, _, _, _, haf, hac, _⟩ := special_ne L hA
    have hi : innerOk L (.base L.anyId) = true := by simp [innerOk, haf, hac]
    simpa [core] using unwrap_inner L hA (.base L.anyId) hi
  | .base i, b, h => by
    by_cases hs : shouldUnwrapM L (.base i) = true
    · simp [unwrapM, hs] at h
    · have hs' : _ = false := Bool.eq_false_iff.mpr hs
      simp only [unwrapM, hs', Bool.false_eq_true, if_false, Option.some.injEq] at h; subst h; simp [unwrapM, hs']
  | .sub g args, b, h => by simp only [unwrapM, Option.some.injEq] at h; subst h; rfl
  | .union sp ms, b, h => by simp only [unwrapM, Option.some.injEq] at h; subst h; rfl
  | .literal hn, b, h => by simp only [unwrapM, Option.some.injEq] at h; subst h; rfl
  | .fref l br, b, h => by simp only [unwrapM, Option.some.injEq] at h; subst h; rfl


/-! ## 7. The class-valued predicates as the dispatch tables use them: after `unwrap` -/

theorem directOk_of_core {a : Ann} (h : coreForm a = true) : directOk a = true := by
  cases a <;> simp_all [coreForm, directOk]

/-- **All 13 origin-based predicates after `unwrap`**: Final / ClassVar outermost, then NewType / alias / TypeVar-bound
    layers in ANY interleaving and of any length over a base or a generic in either spelling. -/
theorem predA_unwrapped_agrees (hA : adequate L = true) (X : Target) {a : Ann} (hl : legal L a = true)
    (hk : coreForm (core L a) = true) {c : Nat} (hr : ResolvesTo L (core L a) c) :
    (unwrapM L a).bind (predA L X) = specSub L X (core L a) := by
  rw [unwrap_strips L hA hl]
  exact predA_agrees L hA X (directOk_of_core hk) hr

/-- **All 9 guarded predicates after `unwrap`.** -/
theorem predB_unwrapped_agrees (hA : adequate L = true) (X : Target) {a : Ann} (hl : legal L a = true)
    (hk : coreForm (core L a) = true) {c : Nat} (hr : ResolvesTo L (core L a) c) :
    (unwrapM L a).map (predB L X) = specSub L X (core L a) := by
  rw [unwrap_strips L hA hl]
  exact predB_agrees L hA X (directOk_of_core hk) hr

theorem isenumtype_unwrapped_agrees (hA : adequate L = true) {a : Ann} (hl : legal L a = true)
    (hk : coreForm (core L a) = true) {c : Nat} (hr : ResolvesTo L (core L a) c) :
    (unwrapM L a).map (isenumtypeM L) = specSub L .enum (core L a) := predB_unwrapped_agrees L hA .enum hl hk hr
theorem istexttype_unwrapped_agrees (hA : adequate L = true) {a : Ann} (hl : legal L a = true)
    (hk : coreForm (core L a) = true) {c : Nat} (hr : ResolvesTo L (core L a) c) :
    (unwrapM L a).map (istexttypeM L) = specSub L .text (core L a) := predB_unwrapped_agrees L hA .text hl hk hr
theorem isstringtype_unwrapped_agrees (hA : adequate L = true) {a : Ann} (hl : legal L a = true)
    (hk : coreForm (core L a) = true) {c : Nat} (hr : ResolvesTo L (core L a) c) :
    (unwrapM L a).map (isstringtypeM L) = specSub L .str (core L a) := predB_unwrapped_agrees L hA .str hl hk hr
theorem isbytestype_unwrapped_agrees (hA : adequate L = true) {a : Ann} (hl : legal L a = true)
    (hk : coreForm (core L a) = true) {c : Nat} (hr : ResolvesTo L (core L a) c) :
    (unwrapM L a).map (isbytestypeM L) = specSub L .bytes (core L a) := predB_unwrapped_agrees L hA .bytes hl hk hr
theorem isnumbertype_unwrapped_agrees (hA : adequate L = true) {a : Ann} (hl : legal L a = true)
    (hk : coreForm (core L a) = true) {c : Nat} (hr : ResolvesTo L (core L a) c) :
    (unwrapM L a).map (isnumbertypeM L) = specSub L .number (core L a) := predB_unwrapped_agrees L hA .number hl hk hr
theorem isintegertype_unwrapped_agrees (hA : adequate L = true) {a : Ann} (hl : legal L a = true)
    (hk : coreForm (core L a) = true) {c : Nat} (hr : ResolvesTo L (core L a) c) :
    (unwrapM L a).map (isintegertypeM L) = specSub L .int (core L a) := predB_unwrapped_agrees L hA .int hl hk hr
theorem isfloattype_unwrapped_agrees (hA : adequate L = true) {a : Ann} (hl : legal L a = true)
    (hk : coreForm (core L a) = true) {c : Nat} (hr : ResolvesTo L (core L a) c) :
    (unwrapM L a).map (isfloattypeM L) = specSub L .float (core L a) := predB_unwrapped_agrees L hA .float hl hk hr
theorem ispatterntype_unwrapped_agrees (hA : adequate L = true) {a : Ann} (hl : legal L a = true)
    (hk : coreForm (core L a) = true) {c : Nat} (hr : ResolvesTo L (core L a) c) :
    (unwrapM L a).map (ispatterntypeM L) = specSub L .pattern (core L a) := predB_unwrapped_agrees L hA .pattern hl hk hr
theorem ispathtype_unwrapped_agrees (hA : adequate L = true) {a : Ann} (hl : legal L a = true)
    (hk : coreForm (core L a) = true) {c : Nat} (hr : ResolvesTo L (core L a) c) :
    (unwrapM L a).map (ispathtypeM L) = specSub L .purepath (core L a) := predB_unwrapped_agrees L hA .purepath hl hk hr

theorem strip_eq_core : ∀ a : Ann, directOk a = true → strip a = core L a ∧ coreForm (strip a) = true
  | .newtype a, h => by simpa [strip, core] using strip_eq_core a (by simpa [directOk] using h)
  | .alias a, h => by simpa [strip, core] using strip_eq_core a (by simpa [directOk] using h)
  | .base _, _ => ⟨rfl, rfl⟩
  | .sub _ _, _ => ⟨rfl, rfl⟩
  | .union _ _, h => by simp [directOk, coreForm] at h
  | .literal _, h => by simp [directOk, coreForm] at h
  | .final _, h => by simp [directOk, coreForm] at h
  | .classvar _, h => by simp [directOk, coreForm] at h
  | .tvarBound _, h => by simp [directOk, coreForm] at h
  | .tvarConstr _, h => by simp [directOk, coreForm] at h
  | .tvarFree, h => by simp [directOk, coreForm] at h
  | .fref _ _, h => by simp [directOk, coreForm] at h

theorem strip_idem : ∀ a : Ann, strip (strip a) = strip a
  | .newtype a => by simpa [strip] using strip_idem a
  | .alias a => by simpa [strip] using strip_idem a
  | .base _ => rfl | .sub _ _ => rfl | .union _ _ => rfl | .literal _ => rfl | .final _ => rfl
  | .classvar _ => rfl | .tvarBound _ => rfl | .tvarConstr _ => rfl | .tvarFree => rfl | .fref _ _ => rfl

theorem resolvedClass_strip (a : Ann) : resolvedClass L (strip a) = resolvedClass L a := by
  unfold resolvedClass; rw [strip_idem]

/-- Every NewType / alias chain once unwrapped: the same answer as asked directly (`predA_agrees`). -/
theorem predA_unwrapped_chain (hA : adequate L = true) (X : Target) {a : Ann} (hn : directOk a = true)
    (hl : legal L a = true) {c : Nat} (hr : ResolvesTo L a c) :
    (unwrapM L a).bind (predA L X) = specSub L X a := by
  obtain ⟨he, hc⟩ := strip_eq_core L a hn
  have hr' : ResolvesTo L (core L a) c :=
    ⟨by rw [← he, resolvedClass_strip]; exact hr.resolved, hr.isClass, hr.ordinaryClass⟩
  rw [predA_unwrapped_agrees L hA X hl (by rw [← he]; exact hc) hr']
  rw [specSub_resolved L hr', specSub_resolved L hr]

/-! ## 8. Spelling invariance of the class-valued predicates -/

theorem originOr_idem (hA : adequate L = true) (g : Nat) : L.originOr (L.originOr g) = L.originOr g := by
  have hO := adequate_origins L hA
  cases hrow : L.row g with
  | none =>
    have hg : L.originOr g = g := by simp [Lattice.originOr, Lattice.getOrigin, hrow]
    rw [hg, hg]
  | some r =>
    cases ho : r.origin with
    | none =>
      have hg : L.originOr g = g := by simp [Lattice.originOr, Lattice.getOrigin, hrow, ho]
      rw [hg, hg]
    | some o =>
      have hg : L.originOr g = o := by simp [Lattice.originOr, Lattice.getOrigin, hrow, ho]
      have := (List.all_eq_true.mp hO) r (row_mem L hrow)
      simp only [rowOriginOk, ho, Bool.and_eq_true, beq_iff_eq] at this
      rw [hg, this.1]

theorem erase_strip : ∀ a : Ann, strip (erase L a) = erase L (strip a)
  | .newtype a => by simpa [erase, strip] using erase_strip a
  | .alias a => by simpa [erase, strip] using erase_strip a
  | .base _ => by simp [erase, strip]
  | .sub _ _ => by simp [erase, strip]
  | .union sp _ => by cases sp <;> simp [erase, strip]
  | .literal _ => by simp [erase, strip]
  | .final _ => by simp [erase, strip]
  | .classvar _ => by simp [erase, strip]
  | .tvarBound _ => by simp [erase, strip]
  | .tvarConstr _ => by simp [erase, strip]
  | .tvarFree => by simp [erase, strip]
  | .fref _ _ => by simp [erase, strip]

theorem tyOrigin_erase (hA : adequate L = true) (w : Ann) : tyOrigin L (erase L w) = tyOrigin L w := by
  cases w with
  | union sp ms => cases sp <;> simp [erase, tyOrigin]
  | sub g args => simp [erase, tyOrigin, originOr_idem L hA]
  | _ => simp [erase, tyOrigin]

/-- The resolved class does not depend on the spelling. -/
theorem resolvedClass_erase (hA : adequate L = true) (a : Ann) : resolvedClass L (erase L a) = resolvedClass L a := by
  unfold resolvedClass; rw [erase_strip, tyOrigin_erase L hA]

theorem coreForm_erase (a : Ann) : coreForm (erase L a) = coreForm a := by
  cases a with
  | union sp ms => cases sp <;> simp [erase, coreForm]
  | _ => simp [erase, coreForm]

theorem directOk_erase : ∀ a : Ann, directOk (erase L a) = directOk a
  | .newtype a => by simpa [erase, directOk] using directOk_erase a
  | .alias a => by simpa [erase, directOk] using directOk_erase a
  | .base _ => by simp [erase, directOk, coreForm]
  | .sub _ _ => by simp [erase, directOk, coreForm]
  | .union sp _ => by cases sp <;> simp [erase, directOk, coreForm]
  | .literal _ => by simp [erase, directOk, coreForm]
  | .final _ => by simp [erase, directOk, coreForm]
  | .classvar _ => by simp [erase, directOk, coreForm]
  | .tvarBound _ => by simp [erase, directOk, coreForm]
  | .tvarConstr _ => by simp [erase, directOk, coreForm]
  | .tvarFree => by simp [erase, directOk, coreForm]
  | .fref _ _ => by simp [erase, directOk, coreForm]

theorem resolvesTo_erase (hA : adequate L = true) {a : Ann} {c : Nat} (hr : ResolvesTo L a c) :
    ResolvesTo L (erase L a) c :=
  ⟨by rw [resolvedClass_erase L hA]; exact hr.resolved, hr.isClass, hr.ordinaryClass⟩

/-- `origin` gives the same class for `typing.List[int]` and `list[int]`, `typing.Sequence[T]` and
    `collections.abc.Sequence[T]`, under any chain of NewTypes and aliases. -/
theorem originM_erase (hA : adequate L = true) {a : Ann} (hd : directOk a = true) {c : Nat} (hr : ResolvesTo L a c) :
    originM L (erase L a) = originM L a := by
  rw [originM_resolved L hA hd hr,
    originM_resolved L hA (by rw [directOk_erase]; exact hd) (resolvesTo_erase L hA hr)]

/-- **Spelling invariance, Group A**: all thirteen are functions of `origin(a)`. -/
theorem predA_spelling_invariant (hA : adequate L = true) (X : Target) {a : Ann} (hd : directOk a = true) {c : Nat}
    (hr : ResolvesTo L a c) : predA L X (erase L a) = predA L X a := by
  unfold predA; rw [originM_erase L hA hd hr]
theorem istupletype_spelling_invariant (hA : adequate L = true) {a : Ann} (hd : directOk a = true) {c : Nat}
    (hr : ResolvesTo L a c) : istupletypeM L (erase L a) = istupletypeM L a := by
  unfold istupletypeM predA; rw [originM_erase L hA hd hr]
theorem issequencetype_spelling_invariant (hA : adequate L = true) {a : Ann} (hd : directOk a = true) {c : Nat}
    (hr : ResolvesTo L a c) : issequencetypeM L (erase L a) = issequencetypeM L a := by
  unfold issequencetypeM predA; rw [originM_erase L hA hd hr]
theorem iscollectiontype_spelling_invariant (hA : adequate L = true) {a : Ann} (hd : directOk a = true) {c : Nat}
    (hr : ResolvesTo L a c) : iscollectiontypeM L (erase L a) = iscollectiontypeM L a := by
  unfold iscollectiontypeM predA; rw [originM_erase L hA hd hr]
theorem ismappingtype_spelling_invariant (hA : adequate L = true) {a : Ann} (hd : directOk a = true) {c : Nat}
    (hr : ResolvesTo L a c) : ismappingtypeM L (erase L a) = ismappingtypeM L a := by
  unfold ismappingtypeM; rw [originM_erase L hA hd hr]

/-- **Spelling invariance, Group B**: functions of `origin(a)` as well. -/
theorem predB_spelling_invariant (hA : adequate L = true) (X : Target) {a : Ann} (hd : directOk a = true) {c : Nat}
    (hr : ResolvesTo L a c) : predB L X (erase L a) = predB L X a := by
  unfold predB; rw [originM_erase L hA hd hr]

/-! ## 9. `origin()` of a collection annotation is a concrete instantiable class of that kind -/

def instantiableM : Ann → Bool
  | .base c => L.flag (·.instantiable) c
  | _ => false

/- Full statement (FALSE on the code as it stands, see `origin_not_instantiable_witness`): for every annotation whose
   typing origin is a builtin / collections / collections.abc class that is Iterable (`stdColl`),
   `instantiableM (originM a)`. -/
/-- … proved for the ABCs GENERIC_TYPE_MAP maps and for classes that are concrete themselves. -/
theorem origin_instantiable (hA : adequate L = true) {a : Ann} (hd : directOk a = true) {c0 : Nat}
    (ht : tyOrigin L (strip a) = some c0)
    (h : (L.gtmGet c0).isSome = true ∨
      (L.flag (·.instantiable) c0 = true ∧ toTypingCallable L (.base c0) = false)) :
    instantiableM L (originM L a) = true := by
  rw [originM_direct L a hd c0 ht, genericsStep_base L (adequate_gtm L hA)]
  cases hg : L.gtmGet c0 with
  | some v =>
    obtain ⟨e, he, _, hv⟩ := gtmGet_mem L hg
    have hval := (gtm_entry L (adequate_gtm L hA) he).2.1
    simp only [gtmValueOk, hv, Bool.and_eq_true, Bool.not_eq_true'] at hval
    simp [Lattice.gtmOr, hg, callableStep, toTypingCallable, hval.2, instantiableM, hval.1.1.1.1.2]
  | none =>
    rcases h with h | h
    · simp [hg] at h
    · simp [Lattice.gtmOr, hg, callableStep, h.2, instantiableM, h.1]

/-- A mapped ABC goes to a class of its own kind: `issubclass(origin(a), ABC)` per the runtime. -/
theorem origin_mapped_same_kind (hA : adequate L = true) {a : Ann} (hd : directOk a = true) {c0 v : Nat}
    (ht : tyOrigin L (strip a) = some c0) (hg : L.gtmGet c0 = some v) :
    originM L a = .base v ∧ ∃ e ∈ L.gtm, e.1 = c0 ∧ e.2.1 = v ∧ e.2.2 = true := by
  obtain ⟨e, he, hk, hv⟩ := gtmGet_mem L hg
  have hval := (gtm_entry L (adequate_gtm L hA) he).2.1
  simp only [gtmValueOk, hv, Bool.and_eq_true, Bool.not_eq_true'] at hval
  refine ⟨?_, e, he, hk, hv, hval.1.1.2⟩
  rw [originM_direct L a hd c0 ht, genericsStep_base L (adequate_gtm L hA)]
  simp [Lattice.gtmOr, hg, callableStep, toTypingCallable, hval.2]


/-! ## 10. Special-form predicates: syntactic specification -/

def magicNames : List Str := [nUnion, nUnionType, nOptional, nLiteral]

/-- `origin` does not turn the base object `i` into a special form, and the class it finds is not called like one.
    (A decidable fact per catalogue object, re-decided for the whole table in `lattice_ordinary`.) -/
def ordinaryId (i : Nat) : Bool :=
  i != L.classVarId &&
  match originM L (.base i) with
  | .base j => j != L.literalId && j != L.finalId && !nameIn magicNames (nameOf L (.base j))
  | _ => false

/-- The special forms themselves and the class-like forms, without wrappers.  (ClassVar: `origin` looks through it,
    see `isuniontype_classvar`; NewType / alias: `unwrap` first, section 6.) -/
def plainOk : Ann → Bool
  | .base i => ordinaryId L i
  | .sub g _ => ordinaryId L g
  | .union _ _ => true
  | .literal _ => true
  | .final _ => true
  | .tvarBound _ => true
  | .tvarConstr _ => true
  | .tvarFree => true
  | .fref _ _ => true
  | _ => false

theorem originM_sub (g : Nat) (args : List Ann) : originM L (.sub g args) = originM L (.base g) := rfl

theorem originM_union (hA : adequate L = true) (sp : USp) (ms : List Ann) :
    originM L (.union sp ms) = .base (if sp = .pipe then L.unionTypeId else L.unionId) := by
  obtain ⟨su, sut, _, _, _⟩ := stable_of L hA
  cases sp
  · exact stable_tail L su
  · exact stable_tail L sut
  · exact stable_tail L su

theorem originM_literal (hA : adequate L = true) (h : Bool) : originM L (.literal h) = .base L.literalId :=
  stable_tail L (stable_of L hA).2.2.1

theorem originM_nonbase_fix {a : Ann} (h1 : resolveSupertype a = a) (h2 : classVarArg L a = a)
    (h3 : aliasLoop a = a) (h4 : getOriginOr L a = a) (h5 : a.isBase = false) : originM L a = a := by
  unfold originM
  rw [h1, h2, h3, h4, genericsStep_nonbase L h5, callableStep_nonbase L h5]

theorem originM_tvarBound (b : Ann) : originM L (.tvarBound b) = .tvarBound b :=
  originM_nonbase_fix L rfl rfl rfl rfl rfl
theorem originM_tvarConstr (cs : List Ann) : originM L (.tvarConstr cs) = .tvarConstr cs :=
  originM_nonbase_fix L rfl rfl rfl rfl rfl
theorem originM_tvarFree : originM L .tvarFree = .tvarFree := originM_nonbase_fix L rfl rfl rfl rfl rfl
theorem originM_fref (l b : Bool) : originM L (.fref l b) = .fref l b := originM_nonbase_fix L rfl rfl rfl rfl rfl

theorem nameOf_of_nameIs {i : Nat} {s : Str} (h : nameIs L i s = true) : nameOf L (.base i) = some s := by
  unfold nameIs at h
  unfold nameOf
  cases hr : L.row i with
  | none => simp [hr] at h
  | some r => simpa [hr] using h

theorem names_of (hA : adequate L = true) :
    nameOf L (.base L.unionId) = some nUnion ∧ nameOf L (.base L.unionTypeId) = some nUnionType ∧
    nameOf L (.base L.optionalId) = some nOptional ∧ nameOf L (.base L.literalId) = some nLiteral ∧
    nameOf L (.base L.finalId) = some nFinal := by
  have h := adequate_special L hA
  simp only [specialOk, namesOk, Bool.and_eq_true] at h
  obtain ⟨⟨⟨⟨⟨⟨_, _⟩, ⟨⟨⟨⟨n1, n2⟩, n3⟩, n4⟩, n5⟩⟩, _⟩, _⟩, _⟩, _⟩ := h
  exact ⟨nameOf_of_nameIs L n1, nameOf_of_nameIs L n2, nameOf_of_nameIs L n3, nameOf_of_nameIs L n4,
    nameOf_of_nameIs L n5⟩

/-- What an ordinary base object gives. -/
theorem ordinary_origin {i : Nat} (h : ordinaryId L i = true) :
    i ≠ L.classVarId ∧ ∃ j, originM L (.base i) = .base j ∧ j ≠ L.literalId ∧ j ≠ L.finalId ∧
      nameIn magicNames (nameOf L (.base j)) = false := by
  unfold ordinaryId at h
  simp only [Bool.and_eq_true, bne_iff_ne, ne_eq] at h
  refine ⟨h.1, ?_⟩
  have h2 := h.2
  cases ho : originM L (.base i) with
  | base j =>
    simp only [ho, Bool.and_eq_true, bne_iff_ne, ne_eq, Bool.not_eq_true'] at h2
    exact ⟨j, rfl, h2.1.1, h2.1.2, h2.2⟩
  | _ => simp [ho] at h2

theorem not_magic {n : Option Str} (h : nameIn magicNames n = false) :
    nameIn unionNames n = false ∧ nameIn optionalNames n = false ∧ nameIn nullableNames n = false := by
  cases n with
  | none => simp [nameIn]
  | some s =>
    simp only [nameIn, magicNames, unionNames, optionalNames, nullableNames, List.contains_cons, List.contains_nil,
      Bool.or_false, Bool.or_eq_false_iff] at h ⊢
    exact ⟨⟨h.1, h.2.1⟩, h.2.2.1, h.1, h.2.1, h.2.2.2⟩

theorem nameIn_table :
    nameIn unionNames (some nUnion) = true ∧ nameIn unionNames (some nUnionType) = true ∧
    nameIn unionNames (some nLiteral) = false ∧ nameIn unionNames (some nFinal) = false ∧
    nameIn optionalNames (some nUnion) = false ∧ nameIn optionalNames (some nUnionType) = false ∧
    nameIn optionalNames (some nLiteral) = false ∧ nameIn optionalNames (some nFinal) = false ∧
    nameIn nullableNames (some nUnion) = true ∧ nameIn nullableNames (some nUnionType) = true ∧
    nameIn nullableNames (some nLiteral) = true ∧ nameIn nullableNames (some nFinal) = false := by decide

/-- `isuniontype` is "the annotation is a union" — `typing.Union[...]`, `Optional[...]` and `X | Y` alike. -/
theorem isuniontype_spec (hA : adequate L = true) {a : Ann} (hp : plainOk L a = true) :
    isuniontypeM L a = a.isUnion := by
  obtain ⟨nu, nut, _, nl, nf⟩ := names_of L hA
  obtain ⟨u1, u2, u3, u4, _⟩ := nameIn_table
  unfold isuniontypeM
  cases a with
  | base i =>
    obtain ⟨_, j, hj, _, _, hn⟩ := ordinary_origin L hp
    rw [hj, (not_magic hn).1]; rfl
  | sub g args =>
    obtain ⟨_, j, hj, _, _, hn⟩ := ordinary_origin L (i := g) hp
    rw [originM_sub, hj, (not_magic hn).1]; rfl
  | union sp ms =>
    rw [originM_union L hA]
    cases sp <;> simp [nu, nut, u1, u2, Ann.isUnion]
  | literal h => rw [originM_literal L hA, nl, u3]; rfl
  | final x => rw [originM_final L hA, nf, u4]; rfl
  | tvarBound b => rw [originM_tvarBound]; rfl
  | tvarConstr cs => rw [originM_tvarConstr]; rfl
  | tvarFree => rw [originM_tvarFree]; rfl
  | fref l b => rw [originM_fref]; rfl
  | classvar x => simp [plainOk] at hp
  | newtype x => simp [plainOk] at hp
  | alias x => simp [plainOk] at hp

/-- The documented meaning of `isoptionaltype`: a union with a member that stands for `None` (directly, or through
    aliases / NewTypes) in any spelling, or a Literal with `None`. -/
def specOptional : Ann → Bool
  | .union sp ms => sp == .optional || ms.any (fun m => isNoneAnn L (core L m))
  | .literal h => h
  | _ => false

/-- Every argument is a legal annotation (so that `unwrap` does not raise on it). -/
def argsLegal (a : Ann) : Bool := (rawArgs L a).all (legal L)

theorem nullScan_legal (hA : adequate L = true) : ∀ as : List Ann, as.all (legal L) = true →
    nullScan L as = some (as.any (fun m => isNoneAnn L (core L m)))
  | [], _ => rfl
  | a :: as, h => by
    simp only [List.all_cons, Bool.and_eq_true] at h
    simp only [nullScan, unwrap_strips L hA h.1, List.any_cons]
    by_cases hn : isNoneAnn L (core L a) = true
    · simp [hn]
    · simp [hn, nullScan_legal hA as h.2]

theorem noneType_is_none (hA : adequate L = true) : isNoneAnn L (.base L.noneTypeId) = true := by
  have hm := adequate_special L hA
  simp only [specialOk, miscOk, Bool.and_eq_true] at hm
  exact hm.1.2.2

theorem noneType_legal (hA : adequate L = true) : legal L (.base L.noneTypeId) = true := by
  have h := adequate_none L hA
  simpa [legal, innerOk, noneOk] using h

theorem isoptionaltype_spec (hA : adequate L = true) {a : Ann} (hp : plainOk L a = true)
    (hl : argsLegal L a = true) : isoptionaltypeM L a = some (specOptional L a) := by
  obtain ⟨nu, nut, _, nl, nf⟩ := names_of L hA
  obtain ⟨_, _, _, _, o1, o2, o3, o4, n1, n2, n3, n4⟩ := nameIn_table
  unfold isoptionaltypeM isoptionalWith
  unfold argsLegal at hl
  cases a with
  | base i =>
    obtain ⟨_, j, hj, _, _, hn⟩ := ordinary_origin L hp
    simp [nullArg, rawArgs, nullScan, hj, (not_magic hn).2.1, (not_magic hn).2.2, specOptional]
  | sub g args =>
    obtain ⟨_, j, hj, _, _, hn⟩ := ordinary_origin L (i := g) hp
    simp only [nullArg, rawArgs] at hl ⊢
    rw [nullScan_legal L hA args hl, originM_sub, hj, (not_magic hn).2.1, (not_magic hn).2.2]
    simp [specOptional]
  | union sp ms =>
    rw [originM_union L hA]
    cases sp with
    | typing =>
      simp only [nullArg, rawArgs] at hl ⊢
      rw [nullScan_legal L hA ms hl]
      simp [nu, o1, n1, specOptional]
    | pipe =>
      simp only [nullArg, rawArgs] at hl ⊢
      rw [nullScan_legal L hA ms hl]
      simp [nut, o2, n2, specOptional]
    | optional =>
      simp only [nullArg, rawArgs] at hl ⊢
      rw [nullScan_legal L hA _ hl]
      simp [nu, o1, n1, specOptional, core, noneType_is_none L hA]
  | literal h =>
    rw [originM_literal L hA, nl, o3, n3]
    simp [nullArg, specOptional]
  | final x =>
    simp only [nullArg, rawArgs] at hl ⊢
    rw [nullScan_legal L hA _ hl, originM_final L hA, nf, o4, n4]
    simp [specOptional]
  | tvarBound b => rw [originM_tvarBound]; simp [nullArg, rawArgs, nullScan, nameOf, nameIn, specOptional]
  | tvarConstr cs => rw [originM_tvarConstr]; simp [nullArg, rawArgs, nullScan, nameOf, nameIn, specOptional]
  | tvarFree => rw [originM_tvarFree]; simp [nullArg, rawArgs, nullScan, nameOf, nameIn, specOptional]
  | fref l b => rw [originM_fref]; simp [nullArg, rawArgs, nullScan, nameOf, nameIn, specOptional]
  | classvar x => simp [plainOk] at hp
  | newtype x => simp [plainOk] at hp
  | alias x => simp [plainOk] at hp

def specLiteral : Ann → Bool
  | .literal _ => true
  | .fref l _ => l
  | _ => false

theorem isliteral_spec (hA : adequate L = true) {a : Ann} (hp : plainOk L a = true) :
    isliteralM L a = specLiteral a := by
  obtain ⟨_, _, _, _, _, _, hlu, hlut, hfl, _, _, _⟩ := special_ne L hA
  unfold isliteralM
  cases a with
  | base i =>
    obtain ⟨_, j, hj, hjl, _, _⟩ := ordinary_origin L hp
    simp [hj, Ann.isBaseId, hjl, specLiteral]
  | sub g args =>
    obtain ⟨_, j, hj, hjl, _, _⟩ := ordinary_origin L (i := g) hp
    simp [originM_sub, hj, Ann.isBaseId, hjl, specLiteral]
  | union sp ms =>
    rw [originM_union L hA]
    cases sp <;> simp [Ann.isBaseId, specLiteral, Ne.symm hlu, Ne.symm hlut]
  | literal h => simp [originM_literal L hA, Ann.isBaseId, specLiteral]
  | final x => simp [originM_final L hA, Ann.isBaseId, specLiteral, hfl]
  | tvarBound b => simp [originM_tvarBound, Ann.isBaseId, specLiteral]
  | tvarConstr cs => simp [originM_tvarConstr, Ann.isBaseId, specLiteral]
  | tvarFree => simp [originM_tvarFree, Ann.isBaseId, specLiteral]
  | fref l b => simp [originM_fref, Ann.isBaseId, specLiteral]
  | classvar x => simp [plainOk] at hp
  | newtype x => simp [plainOk] at hp
  | alias x => simp [plainOk] at hp

def specFinal : Ann → Bool
  | .final _ => true
  | _ => false

theorem isfinal_spec (hA : adequate L = true) {a : Ann} (hp : plainOk L a = true) :
    isfinalM L a = specFinal a := by
  obtain ⟨huf, hutf, hlf, _, _, _, _, _, _, _, _, _⟩ := special_ne L hA
  unfold isfinalM
  cases a with
  | base i =>
    obtain ⟨_, j, hj, _, hjf, _⟩ := ordinary_origin L hp
    simp [hj, Ann.isBaseId, hjf, specFinal]
  | sub g args =>
    obtain ⟨_, j, hj, _, hjf, _⟩ := ordinary_origin L (i := g) hp
    simp [originM_sub, hj, Ann.isBaseId, hjf, specFinal]
  | union sp ms =>
    rw [originM_union L hA]
    cases sp <;> simp [Ann.isBaseId, specFinal, huf, hutf]
  | literal h => simp [originM_literal L hA, Ann.isBaseId, specFinal, hlf]
  | final x => simp [originM_final L hA, Ann.isBaseId, specFinal]
  | tvarBound b => simp [originM_tvarBound, Ann.isBaseId, specFinal]
  | tvarConstr cs => simp [originM_tvarConstr, Ann.isBaseId, specFinal]
  | tvarFree => simp [originM_tvarFree, Ann.isBaseId, specFinal]
  | fref l b => simp [originM_fref, Ann.isBaseId, specFinal]
  | classvar x => simp [plainOk] at hp
  | newtype x => simp [plainOk] at hp
  | alias x => simp [plainOk] at hp

/-- `isclassvartype`: a `ClassVar[...]`, possibly behind NewTypes (documented); never a plain form. -/
theorem isclassvartype_spec :
    (∀ x, isclassvartypeM L (.classvar x) = true) ∧
    (∀ a, isclassvartypeM L (.newtype a) = isclassvartypeM L a) ∧
    (∀ a, plainOk L a = true → isclassvartypeM L a = false) := by
  refine ⟨fun _ => rfl, fun _ => rfl, ?_⟩
  intro a hp
  cases a with
  | base i =>
    obtain ⟨hcv, _⟩ := ordinary_origin L hp
    simp [isclassvartypeM, resolveSupertype, isClassVarResolved, hcv]
  | classvar x => simp [plainOk] at hp
  | newtype x => simp [plainOk] at hp
  | _ => rfl

/-- `isnonetype` / `isforwardref`: the object itself. -/
theorem isnonetype_spec (a : Ann) : isnonetypeM L a = true ↔ ∃ i, a = .base i ∧ L.flag (·.isNone) i = true := by
  cases a <;> simp [isnonetypeM, isNoneAnn]
theorem isforwardref_spec (a : Ann) : isforwardrefM a = true ↔ ∃ l b, a = .fref l b := by
  cases a <;> simp [isforwardrefM, Ann.isFref]

/-- `isunresolvable` of a class-valued annotation: the object itself or the class it resolves to is in `_UNRESOLVABLE`. -/
theorem inUnresolvable_erase (a : Ann) : inUnresolvable L (erase L a) = inUnresolvable L a := by
  cases a with
  | union sp ms => cases sp <;> simp [erase, inUnresolvable]
  | _ => simp [erase, inUnresolvable]

theorem isunresolvable_resolved (hA : adequate L = true) {a : Ann} (hd : directOk a = true) {c : Nat}
    (hr : ResolvesTo L a c) : isunresolvableM L a = (inUnresolvable L a || L.flag (·.unresolvable) c) := by
  unfold isunresolvableM; rw [originM_resolved L hA hd hr]; rfl


/-- "Has `typing.get_origin` and arguments": a subscripted generic, a union, a Literal, `Final[...]`. -/
def specSubscripted : Ann → Bool
  | .sub _ _ => true
  | .union _ _ => true
  | .literal _ => true
  | .final _ => true
  | _ => false

/-- The forms whose `str()` shows their subscript: everything but a `|` union, a ForwardRef whose text has a `[`,
    and base objects whose own `str()` has one. -/
def reprFaithful : Ann → Bool
  | .union .pipe _ => false
  | .fref _ br => !br
  | .base i => !reprBracket L (.base i)
  | _ => true

/- Full statement (FALSE on the code as it stands, see `issubscriptedgeneric_pipe_witness`):
     plainOk a → issubscriptedgenericM L a = specSubscripted a. -/
theorem issubscriptedgeneric_spec_partial {a : Ann} (hp : plainOk L a = true) (hf : reprFaithful L a = true) :
    issubscriptedgenericM L a = specSubscripted a := by
  unfold issubscriptedgenericM
  cases a with
  | base i =>
    simp only [reprFaithful, Bool.not_eq_true'] at hf
    simp [hf, specSubscripted]
  | sub g args => simp [isgenericM, reprBracket, memberBracket, specSubscripted]
  | union sp ms =>
    cases sp with
    | pipe => simp [reprFaithful] at hf
    | typing => simp [isgenericM, reprBracket, memberBracket, specSubscripted]
    | optional => simp [isgenericM, reprBracket, memberBracket, specSubscripted]
  | literal h => simp [isgenericM, reprBracket, memberBracket, specSubscripted]
  | final x => simp [isgenericM, reprBracket, memberBracket, specSubscripted]
  | tvarBound b => simp [reprBracket, memberBracket, specSubscripted]
  | tvarConstr cs => simp [reprBracket, memberBracket, specSubscripted]
  | tvarFree => simp [reprBracket, memberBracket, specSubscripted]
  | fref l b =>
    simp only [reprFaithful, Bool.not_eq_true'] at hf
    simp [reprBracket, hf, specSubscripted]
  | classvar x => simp [plainOk] at hp
  | newtype x => simp [plainOk] at hp
  | alias x => simp [plainOk] at hp

/-- `isfixedtupletype`: a subscripted generic whose runtime origin is a tuple class, with at least one argument, the
    last of which is not `...`. -/
def specFixedTuple : Ann → Bool
  | .sub g args => !(args.map (normTv L)).isEmpty && !lastIsEllipsis L (args.map (normTv L)) &&
      L.tri .tuple (L.originOr g) == 1
  | _ => false

theorem isfixedtupletype_spec (hA : adequate L = true) {a : Ann} (hp : plainOk L a = true) :
    isfixedtupletypeM L a = specFixedTuple L a := by
  have hm := adequate_special L hA
  simp only [specialOk, miscOk, Bool.and_eq_true, bne_iff_ne, ne_eq] at hm
  obtain ⟨⟨⟨⟨tu, tut⟩, tl⟩, tf⟩, _⟩ := hm.1.2
  unfold isfixedtupletypeM
  cases a with
  | base i => simp [argsOf, specFixedTuple]
  | sub g args =>
    simp only [argsOf, typingOrigin, specFixedTuple]
    by_cases h : ((args.map (normTv L)).isEmpty || lastIsEllipsis L (args.map (normTv L))) = true
    · simp only [h, if_true]
      simp only [Bool.or_eq_true] at h
      rcases h with h | h <;> simp [h]
    · simp only [h]
      simp only [Bool.or_eq_true, not_or, Bool.not_eq_true] at h
      simp [h.1, h.2]
  | union sp ms =>
    cases sp <;> simp [typingOrigin, specFixedTuple, tu, tut]
  | literal h => simp [typingOrigin, specFixedTuple, tl]
  | final x => simp [typingOrigin, specFixedTuple, tf]
  | tvarBound b => simp [argsOf, specFixedTuple]
  | tvarConstr cs => simp [argsOf, specFixedTuple]
  | tvarFree => simp [argsOf, specFixedTuple]
  | fref l b => simp [argsOf, specFixedTuple]
  | classvar x => simp [plainOk] at hp
  | newtype x => simp [plainOk] at hp
  | alias x => simp [plainOk] at hp


/-! ## 11. Spelling invariance of the special-form predicates -/

theorem isunresolvable_spelling_invariant (hA : adequate L = true) {a : Ann} (hd : directOk a = true) {c : Nat}
    (hr : ResolvesTo L a c) : isunresolvableM L (erase L a) = isunresolvableM L a := by
  unfold isunresolvableM
  rw [originM_erase L hA hd hr, inUnresolvable_erase]

theorem eraseList_eq_map (as : List Ann) : eraseList L as = as.map (erase L) := by
  induction as with
  | nil => simp [eraseList]
  | cons a as ih => simp [eraseList, ih]

theorem originM_base_originOr (hA : adequate L = true) (g : Nat) :
    originM L (.base (L.originOr g)) = originM L (.base g) := by
  have h1 : originM L (.base (L.originOr g)) =
      callableStep L (genericsStep L (.base (L.originOr (L.originOr g)))) := rfl
  have h2 : originM L (.base g) = callableStep L (genericsStep L (.base (L.originOr g))) := rfl
  rw [h1, h2, originOr_idem L hA]

theorem originOr_ne_special (hA : adequate L = true) {g s : Nat} (hs : s ∈ specialIds L) (hg : g ≠ s) :
    L.originOr g ≠ s := by
  have hsp := adequate_special L hA
  simp only [specialOk, Bool.and_eq_true] at hsp
  have hor : originsAvoidSpecial L = true := hsp.1.1.2
  unfold Lattice.originOr Lattice.getOrigin
  cases hrow : L.row g with
  | none => simpa using hg
  | some r =>
    cases ho : r.origin with
    | none => simpa [ho] using hg
    | some o =>
      have := (List.all_eq_true.mp hor) r (row_mem L hrow)
      simp only [rowAvoidsSpecial, ho, Bool.not_eq_true', List.contains_eq_mem, decide_eq_false_iff_not] at this
      simp only [ho]
      intro heq; rw [heq] at this; exact this hs

theorem ordinaryId_originOr (hA : adequate L = true) {g : Nat} (h : ordinaryId L g = true) :
    ordinaryId L (L.originOr g) = true := by
  unfold ordinaryId at h ⊢
  simp only [Bool.and_eq_true, bne_iff_ne, ne_eq] at h
  rw [originM_base_originOr L hA]
  simp only [Bool.and_eq_true, bne_iff_ne, ne_eq]
  exact ⟨originOr_ne_special L hA (by simp [specialIds]) h.1, h.2⟩

theorem plainOk_erase (hA : adequate L = true) {a : Ann} (hp : plainOk L a = true) : plainOk L (erase L a) = true := by
  cases a with
  | base i => simpa [erase, plainOk] using hp
  | sub g args => simpa [erase, plainOk] using ordinaryId_originOr L hA (g := g) hp
  | union sp ms => cases sp <;> simp [erase, plainOk]
  | literal h => simp [erase, plainOk]
  | final x => simp [erase, plainOk]
  | tvarBound b => simp [erase, plainOk]
  | tvarConstr cs => simp [erase, plainOk]
  | tvarFree => simp [erase, plainOk]
  | fref l b => simp [erase, plainOk]
  | classvar x => simp [plainOk] at hp
  | newtype x => simp [plainOk] at hp
  | alias x => simp [plainOk] at hp

theorem isNoneAnn_erase (a : Ann) : isNoneAnn L (erase L a) = isNoneAnn L a := by
  cases a with
  | union sp ms => cases sp <;> simp [erase, isNoneAnn]
  | _ => simp [erase, isNoneAnn]

theorem core_erase : ∀ a : Ann, core L (erase L a) = erase L (core L a)
  | .final a => by simpa [erase, core] using core_erase a
  | .classvar a => by simpa [erase, core] using core_erase a
  | .alias a => by simpa [erase, core] using core_erase a
  | .newtype a => by simpa [erase, core] using core_erase a
  | .tvarBound a => by simpa [erase, core] using core_erase a
  | .tvarConstr _ => by simp [erase, core]
  | .tvarFree => by simp [erase, core]
  | .base _ => by simp [erase, core]
  | .sub _ _ => by simp [erase, core]
  | .union sp _ => by cases sp <;> simp [erase, core]
  | .literal _ => by simp [erase, core]
  | .fref _ _ => by simp [erase, core]

theorem any_none_erase (ms : List Ann) :
    (eraseList L ms).any (fun m => isNoneAnn L (core L m)) = ms.any (fun m => isNoneAnn L (core L m)) := by
  rw [eraseList_eq_map, List.any_map]
  congr 1
  funext m
  simp [core_erase, isNoneAnn_erase]

theorem isUnion_erase (a : Ann) : (erase L a).isUnion = a.isUnion := by
  cases a with
  | union sp ms => cases sp <;> simp [erase, Ann.isUnion]
  | _ => simp [erase, Ann.isUnion]

theorem specOptional_erase (hA : adequate L = true) (a : Ann) : specOptional L (erase L a) = specOptional L a := by
  have hn := noneType_is_none L hA
  cases a with
  | union sp ms =>
    cases sp with
    | optional => simp [erase, specOptional, List.any_append, hn, core]
    | typing => simp [erase, specOptional, any_none_erase]
    | pipe =>
      simp only [erase, specOptional, any_none_erase]
      rfl
  | _ => simp [erase, specOptional]

theorem specLiteral_erase (a : Ann) : specLiteral (erase L a) = specLiteral a := by
  cases a with
  | union sp ms => cases sp <;> simp [erase, specLiteral]
  | _ => simp [erase, specLiteral]

theorem specFinal_erase (a : Ann) : specFinal (erase L a) = specFinal a := by
  cases a with
  | union sp ms => cases sp <;> simp [erase, specFinal]
  | _ => simp [erase, specFinal]

/-- **`X | None`, `Optional[X]` and `Union[X, None]` (and the two spellings of every generic) get the same answer.** -/
theorem isuniontype_spelling_invariant (hA : adequate L = true) {a : Ann} (hp : plainOk L a = true) :
    isuniontypeM L (erase L a) = isuniontypeM L a := by
  rw [isuniontype_spec L hA hp, isuniontype_spec L hA (plainOk_erase L hA hp), isUnion_erase]
theorem isoptionaltype_spelling_invariant (hA : adequate L = true) {a : Ann} (hp : plainOk L a = true)
    (hl : argsLegal L a = true) (hl' : argsLegal L (erase L a) = true) :
    isoptionaltypeM L (erase L a) = isoptionaltypeM L a := by
  rw [isoptionaltype_spec L hA hp hl, isoptionaltype_spec L hA (plainOk_erase L hA hp) hl', specOptional_erase L hA]
theorem isliteral_spelling_invariant (hA : adequate L = true) {a : Ann} (hp : plainOk L a = true) :
    isliteralM L (erase L a) = isliteralM L a := by
  rw [isliteral_spec L hA hp, isliteral_spec L hA (plainOk_erase L hA hp), specLiteral_erase]
theorem isfinal_spelling_invariant (hA : adequate L = true) {a : Ann} (hp : plainOk L a = true) :
    isfinalM L (erase L a) = isfinalM L a := by
  rw [isfinal_spec L hA hp, isfinal_spec L hA (plainOk_erase L hA hp), specFinal_erase]

theorem isnonetype_spelling_invariant (a : Ann) : isnonetypeM L (erase L a) = isnonetypeM L a :=
  isNoneAnn_erase L a

theorem isforwardref_spelling_invariant (a : Ann) : isforwardrefM (erase L a) = isforwardrefM a := by
  cases a with
  | union sp ms => cases sp <;> simp [erase, isforwardrefM, Ann.isFref]
  | _ => simp [erase, isforwardrefM, Ann.isFref]

theorem resolveSupertype_erase : ∀ a : Ann, resolveSupertype (erase L a) = erase L (resolveSupertype a)
  | .newtype a => by simpa [erase, resolveSupertype] using resolveSupertype_erase a
  | .base _ => by simp [erase, resolveSupertype]
  | .sub _ _ => by simp [erase, resolveSupertype]
  | .union sp _ => by cases sp <;> simp [erase, resolveSupertype]
  | .literal _ => by simp [erase, resolveSupertype]
  | .final _ => by simp [erase, resolveSupertype]
  | .classvar _ => by simp [erase, resolveSupertype]
  | .alias _ => by simp [erase, resolveSupertype]
  | .tvarBound _ => by simp [erase, resolveSupertype]
  | .tvarConstr _ => by simp [erase, resolveSupertype]
  | .tvarFree => by simp [erase, resolveSupertype]
  | .fref _ _ => by simp [erase, resolveSupertype]

/-- `isclassvartype` (every annotation, wrappers included). -/
theorem isclassvartype_spelling_invariant (a : Ann) : isclassvartypeM L (erase L a) = isclassvartypeM L a := by
  unfold isclassvartypeM
  rw [resolveSupertype_erase]
  generalize resolveSupertype a = r
  cases r with
  | union sp ms => cases sp <;> simp [erase, isClassVarResolved]
  | _ => simp [erase, isClassVarResolved]

theorem specSubscripted_erase (a : Ann) : specSubscripted (erase L a) = specSubscripted a := by
  cases a with
  | union sp ms => cases sp <;> simp [erase, specSubscripted]
  | _ => simp [erase, specSubscripted]

theorem reprFaithful_erase {a : Ann} (h : reprFaithful L a = true) : reprFaithful L (erase L a) = true := by
  cases a with
  | union sp ms => cases sp <;> simp_all [erase, reprFaithful]
  | base i => simpa [erase, reprFaithful] using h
  | fref l b => simpa [erase, reprFaithful] using h
  | _ => simp [erase, reprFaithful]

theorem issubscriptedgeneric_spelling_invariant (hA : adequate L = true) {a : Ann} (hp : plainOk L a = true)
    (hf : reprFaithful L a = true) : issubscriptedgenericM L (erase L a) = issubscriptedgenericM L a := by
  rw [issubscriptedgeneric_spec_partial L hp hf,
    issubscriptedgeneric_spec_partial L (plainOk_erase L hA hp) (reprFaithful_erase L hf), specSubscripted_erase]

theorem isBaseId_erase (a : Ann) (i : Nat) : (erase L a).isBaseId i = a.isBaseId i := by
  cases a with
  | union sp ms => cases sp <;> simp [erase, Ann.isBaseId]
  | _ => simp [erase, Ann.isBaseId]

theorem isBaseId_normTv_erase (x : Ann) :
    (normTv L (erase L x)).isBaseId L.ellipsisId = (normTv L x).isBaseId L.ellipsisId := by
  cases x with
  | union sp ms => cases sp <;> simp [erase, normTv, Ann.isBaseId]
  | tvarBound b => simp [erase, normTv, isBaseId_erase]
  | _ => simp [erase, normTv, Ann.isBaseId]

theorem lastIsEllipsis_erase (args : List Ann) :
    lastIsEllipsis L ((eraseList L args).map (normTv L)) = lastIsEllipsis L (args.map (normTv L)) := by
  rw [eraseList_eq_map]
  unfold lastIsEllipsis
  simp only [List.map_map, List.getLast?_map]
  cases args.getLast? with
  | none => rfl
  | some x => simp [isBaseId_normTv_erase L]

theorem specFixedTuple_erase (hA : adequate L = true) (a : Ann) :
    specFixedTuple L (erase L a) = specFixedTuple L a := by
  cases a with
  | sub g args =>
    simp only [erase, specFixedTuple, lastIsEllipsis_erase L, originOr_idem L hA]
    simp [eraseList_eq_map]
  | union sp ms => cases sp <;> simp [erase, specFixedTuple]
  | _ => simp [erase, specFixedTuple]

theorem isfixedtupletype_spelling_invariant (hA : adequate L = true) {a : Ann} (hp : plainOk L a = true) :
    isfixedtupletypeM L (erase L a) = isfixedtupletypeM L a := by
  rw [isfixedtupletype_spec L hA hp, isfixedtupletype_spec L hA (plainOk_erase L hA hp), specFixedTuple_erase L hA]


/-! ## 12. The regenerated table: what is ordinary, and where the code does not meet the full statement -/

open Typelib.Gen in
/-- The table of this run. -/
abbrev G : Lattice := Typelib.Gen.lattice

open Typelib.Gen

/-- Every catalogue object is ordinary (no class is mistaken for a Union / Optional / Literal / Final by its name or by
    what `origin` makes of it) — except the special forms themselves. -/
theorem lattice_ordinary :
    (List.range G.rows.length).all (fun i => ordinaryId G i || (specialIds G).contains i) = true := by
  decide +kernel

/-- `Alias(Alias(date))`, `Alias(NewType(date))`, `NewType(Alias(NewType(Alias(date))))`: resolved, asked directly. -/
theorem alias_chain_resolved_example :
    isdatetypeM G (.alias (.alias (.base Id.i_datetime_date))) = some true ∧
    isdatetypeM G (.alias (.newtype (.base Id.i_datetime_date))) = some true ∧
    isdatetypeM G (.newtype (.alias (.newtype (.alias (.base Id.i_datetime_date))))) = some true ∧
    specSub G .date (.alias (.alias (.base Id.i_datetime_date))) = some true ∧
    directOk (.newtype (.alias (.newtype (.alias (.base Id.i_datetime_date))))) = true := by
  decide +kernel

/-- The guarded predicates resolve wrappers, generics, bare typing aliases and mapped ABCs:
    `isstringtype(NewType("S", str))`, `ispatterntype(re.Pattern[str])`, `ispatterntype(typing.Pattern)`,
    `isstringtype(Hashable)` (its origin is `str`). -/
theorem direct_predicates_resolved_example :
    isstringtypeM G (.newtype (.base Id.i_str)) = true ∧
    specSub G .str (.newtype (.base Id.i_str)) = some true ∧
    ispatterntypeM G (.sub Id.i_re_Pattern [.base Id.i_str]) = true ∧
    ispatterntypeM G (.sub Id.i_typing_Pattern [.base Id.i_str]) = true ∧
    ispatterntypeM G (.base Id.i_typing_Pattern) = true ∧
    isstringtypeM G (.base Id.i_typing_Hashable) = true ∧
    isstringtypeM G (.alias (.alias (.newtype (.base Id.i_user_MyStr)))) = true ∧
    isstringtypeM G (.union .optional [.base Id.i_str]) = false := by
  decide +kernel

/-- `issequencetype(dict)` is True, `issequencetype(OrderedDict)` is False: neither Sequence nor Collection. -/
theorem issequencetype_disagrees_witness :
    issequencetypeM G (.base Id.i_dict) = some true ∧
    issequencetypeM G (.base Id.i_collections_OrderedDict) = some false ∧
    specSequence G (.base Id.i_collections_OrderedDict) = some true ∧
    seqConsistent G Id.i_collections_OrderedDict = false ∧
    G.tri .sequence Id.i_dict = 0 := by
  decide +kernel

/-- A class that defines `__call__` is its own origin; `type`, metaclasses and `Callable[...]` are `typing.Callable`. -/
theorem callable_class_example :
    G.isClass Id.i_user_CallableCls = true ∧ G.callable Id.i_user_CallableCls = true ∧
    toTypingCallable G (.base Id.i_user_CallableCls) = false ∧
    (originM G (.base Id.i_user_CallableCls)).isBaseId Id.i_user_CallableCls = true ∧
    isdatetypeM G (.base Id.i_user_CallableCls) = some false ∧
    isunresolvableM G (.base Id.i_user_CallableCls) = false ∧
    (originM G (.sub Id.i_type [.base Id.i_int])).isBaseId G.callableId = true ∧
    (originM G (.base Id.i_enum_EnumType)).isBaseId G.callableId = true ∧
    (originM G (.sub Id.i_collections_abc_Callable [.base Id.i_int, .base Id.i_str])).isBaseId G.callableId = true := by
  decide +kernel

/-- `origin(Iterator[int])` is the abstract `collections.abc.Iterator`; likewise `typing.ByteString` (a Collection). -/
theorem origin_not_instantiable_witness :
    directOk (.sub Id.i_typing_Iterator [.base Id.i_int]) = true ∧
    G.flag (·.stdColl) Id.i_collections_abc_Iterator = true ∧
    (originM G (.sub Id.i_typing_Iterator [.base Id.i_int])).isBaseId Id.i_collections_abc_Iterator = true ∧
    instantiableM G (originM G (.sub Id.i_typing_Iterator [.base Id.i_int])) = false ∧
    G.tri .collection Id.i_collections_abc_ByteString = 1 ∧
    instantiableM G (originM G (.base Id.i_typing_ByteString)) = false := by
  decide +kernel

/-- `Hashable ↦ str`: instantiable, and `issubclass(str, Hashable)` — the letter of the clause holds. -/
theorem origin_hashable_is_str :
    (originM G (.base Id.i_typing_Hashable)).isBaseId Id.i_str = true ∧
    instantiableM G (originM G (.base Id.i_typing_Hashable)) = true := by
  decide +kernel

/-- `issubscriptedgeneric(int | None)` is False, `issubscriptedgeneric(Optional[int])` is True. -/
theorem issubscriptedgeneric_pipe_witness :
    issubscriptedgenericM G (.union .pipe [.base Id.i_int, .base Id.i_NoneType]) = false ∧
    issubscriptedgenericM G (.union .optional [.base Id.i_int]) = true ∧
    specSubscripted (.union .pipe [.base Id.i_int, .base Id.i_NoneType]) = true ∧
    issubscriptedgenericM G (.fref false true) = true := by
  decide +kernel

/-- `unwrap` strips ClassVar and Final uniformly, also over a Literal (or an alias of one). -/
theorem unwrap_qualified_literal_example :
    legal G (.classvar (.literal false)) = true ∧
    (unwrapM G (.classvar (.literal false))).map isWrapper = some false ∧
    (unwrapM G (.final (.literal false))).map isWrapper = some false ∧
    (unwrapM G (.classvar (.alias (.literal true)))).map isWrapper = some false := by
  decide +kernel

/-- `origin` looks through ClassVar: `isuniontype(ClassVar[Optional[int]])` is True, `isoptionaltype` is False. -/
theorem classvar_optional_witness :
    isuniontypeM G (.classvar (.union .optional [.base Id.i_int])) = true ∧
    isoptionaltypeM G (.classvar (.union .optional [.base Id.i_int])) = some false := by
  decide +kernel

/-! ## 13. Non-vacuity -/

/-- `NewType(NewType(Alias(typing.Sequence[int])))`. -/
def exChain : Ann := .newtype (.newtype (.alias (.sub Id.i_typing_Sequence [.base Id.i_int])))

example : directOk exChain = true := by decide
example : ResolvesTo G exChain Id.i_list := ⟨by decide +kernel, by decide +kernel, by decide +kernel⟩
example : isiterabletypeM G exChain = some true := by decide +kernel
example : isiterabletypeM G exChain = specSub G .iterable exChain :=
  isiterabletype_agrees G lattice_adequate (by decide) (c := Id.i_list) ⟨by decide +kernel, by decide +kernel, by decide +kernel⟩
example : ismappingtypeM G exChain = some false := by decide +kernel
example : (erase G exChain).isNewtype = true ∧ issequencetypeM G (erase G exChain) = issequencetypeM G exChain := by
  decide +kernel
example : seqConsistent G Id.i_list = true := by decide +kernel

/-- `Final[NewType(Alias(NewType(TypeVar(bound=NewType(datetime)))))]`. -/
def exWrapped : Ann :=
  .final (.newtype (.alias (.newtype (.tvarBound (.newtype (.base Id.i_datetime_datetime))))))

example : legal G exWrapped = true := by decide +kernel
example : (unwrapM G exWrapped).map (·.isBaseId Id.i_datetime_datetime) = some true := by decide +kernel
example : (unwrapM G exWrapped).bind (isdatetypeM G) = some true := by decide +kernel
example : (unwrapM G exWrapped).bind (isdatetypeM G) = specSub G .date (core G exWrapped) :=
  predA_unwrapped_agrees G lattice_adequate .date (by decide +kernel) (by decide +kernel) (c := Id.i_datetime_datetime)
    ⟨by decide +kernel, by decide +kernel, by decide +kernel⟩
example : (unwrapM G (.alias (.alias (.newtype (.base Id.i_str))))).map (isstringtypeM G) = some true := by
  decide +kernel

example : plainOk G (.union .pipe [.base Id.i_int, .base Id.i_NoneType]) = true := by decide +kernel
example : plainOk G (.sub Id.i_typing_List [.base Id.i_int]) = true := by decide +kernel
example : isoptionaltypeM G (.union .pipe [.base Id.i_int, .base Id.i_NoneType]) = some true ∧
    isoptionaltypeM G (.union .optional [.base Id.i_int]) = some true ∧
    isoptionaltypeM G (.union .typing [.base Id.i_int, .base Id.i_str]) = some false ∧
    isoptionaltypeM G (.union .typing [.base Id.i_int, .alias (.newtype (.base Id.i_NoneType))]) = some true ∧
    isoptionaltypeM G (.literal true) = some true := by decide +kernel
example : argsLegal G (.union .typing [.base Id.i_int, .alias (.newtype (.base Id.i_NoneType))]) = true := by
  decide +kernel
example : isfixedtupletypeM G (.sub Id.i_typing_Tuple [.base Id.i_int, .base Id.i_str]) = true ∧
    isfixedtupletypeM G (.sub Id.i_tuple [.base Id.i_int, .base Id.i_Ellipsis]) = false := by decide +kernel
example : instantiableM G (originM G (.sub Id.i_collections_abc_Set [.base Id.i_int])) = true ∧
    (originM G (.sub Id.i_collections_abc_Set [.base Id.i_int])).isBaseId Id.i_set = true := by decide +kernel
example : ordinaryId G Id.i_user_DC = true ∧ ordinaryId G G.literalId = false := by decide +kernel

end Typelib.C17
