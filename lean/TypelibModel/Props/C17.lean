/-
  C17 — Type predicates agree with Python's own type semantics.

  Model: `Model/Inspect.lean` (origin / resolve_supertype / unwrap / the is*type family of inspection.py over a
  table of runtime facts).  The runtime's class lattice is DATA (`Gen/Lattice.lean`, regenerated from the running
  interpreter and the imported typelib tables on every run); the theorems are about typelib's handling of WRAPPERS
  and SPELLINGS over any table that passes the decidable predicate `adequate`, and `lattice_adequate` re-decides
  that predicate for the regenerated table.
-/
import TypelibModel.Model.Inspect
import TypelibModel.Gen.Lattice
namespace Typelib.C17
open Typelib Typelib.Inspect

variable (L : Lattice)

/-! ## 1. Table adequacy (decidable) -/

/-- A class never makes `issubclass` raise, whatever the target. -/
def rowTotal (r : Row) : Bool := !r.isClass || allTargets.all fun X => decide (r.sub.getD X.idx 2 ≤ 1)
def rowsOk : Bool := L.rows.all rowTotal

/-- A row's typing origin is a class that is its own origin. -/
def rowOriginOk (r : Row) : Bool :=
  match r.origin with
  | some o => L.originOr o == o && L.isClass o
  | none => true
def originsOk : Bool := L.rows.all (rowOriginOk L)

/-- No key of GENERIC_TYPE_MAP is a builtin type (the `isbuiltintype` guard of `origin` never hides an entry). -/
def gtmKeyOk (e : Nat × Nat × Bool) : Bool := !(L.flag (·.builtin) e.1) && !(L.flag (·.builtinTy) e.1)
/-- Every value of GENERIC_TYPE_MAP is a concrete, instantiable, non-callable class OF THE KEY'S KIND
    (`issubclass(value, key)` per the runtime) and is not remapped itself. -/
def gtmValueOk (e : Nat × Nat × Bool) : Bool :=
  L.isClass e.2.1 && L.flag (·.instantiable) e.2.1 && !(L.flag (·.isAbstract) e.2.1) && e.2.2 &&
    (L.gtmGet e.2.1).isNone && !(L.callable e.2.1)
/-- A typing alias and the ABC it stands for are mapped alike (`typing.Sequence` ↦ what
    `collections.abc.Sequence` ↦). -/
def gtmSpellingOk (e : Nat × Nat × Bool) : Bool :=
  match L.getOrigin e.1 with
  | some o => L.gtmGet o == some e.2.1
  | none => true
def gtmOk : Bool := L.gtm.all fun e => gtmKeyOk L e && gtmValueOk L e && gtmSpellingOk L e

/-- Every member of `_COLLECTIONS` is a `collections.abc.Collection` per the runtime. -/
def rowCollectionOk (r : Row) : Bool := !r.inCollections || r.sub.getD Target.collection.idx 2 == 1
def collectionsOk : Bool := L.rows.all rowCollectionOk

/-- `origin` leaves the special form `s` alone. -/
def stableId (s : Nat) : Bool := (L.getOrigin s).isNone && (originM L (.base s)).isBaseId s

def nameIs (i : Nat) (s : String) : Bool :=
  match L.row i with
  | some r => nameRow r == s.toList
  | none => false

def specialIds : List Nat := [L.unionId, L.unionTypeId, L.optionalId, L.literalId, L.finalId, L.classVarId, L.callableId]

/-- The special forms are pairwise different objects, `origin` fixes them, they carry their names, none of them
    is a value of GENERIC_TYPE_MAP or the typing origin of a row, `tuple` is a tuple, `Any` / `None` / `...` are
    not qualifiers. -/
def specialOk : Bool :=
  (specialIds L).Nodup && stableId L L.unionId && stableId L L.unionTypeId && stableId L L.literalId &&
  stableId L L.finalId && stableId L L.optionalId &&
  nameIs L L.unionId "Union" && nameIs L L.unionTypeId "UnionType" && nameIs L L.optionalId "Optional" &&
  nameIs L L.literalId "Literal" && nameIs L L.finalId "Final" &&
  L.gtm.all (fun e => !(specialIds L).contains e.2.1) &&
  L.rows.all (fun r => match r.origin with | some o => !(specialIds L).contains o | none => true) &&
  L.tri .tuple L.tupleId == 1 && !(specialIds L).contains L.anyId && !(specialIds L).contains L.noneTypeId &&
  !(specialIds L).contains L.ellipsisId && L.anyId != L.ellipsisId && L.noneTypeId != L.ellipsisId

def adequate : Bool := rowsOk L && originsOk L && gtmOk L && collectionsOk L && specialOk L

/-- **The regenerated table is adequate** (re-decided on every run against `Gen/Lattice.lean`). -/
theorem lattice_adequate : adequate Typelib.Gen.lattice = true := by decide +kernel

theorem lattice_size : Typelib.Gen.lattice.rows.length = 164 ∧ Typelib.Gen.lattice.gtm.length = 18 := by decide +kernel


/-! ## 2. Table lemmas -/

theorem row_mem {i : Nat} {r : Row} (h : L.row i = some r) : r ∈ L.rows := by
  unfold Lattice.row at h
  exact List.mem_of_getElem? h

theorem target_mem (X : Target) : X ∈ allTargets := by cases X <;> decide

theorem tri_le_of_class (hA : rowsOk L = true) {i : Nat} (hc : L.isClass i = true) (X : Target) :
    L.tri X i ≤ 1 := by
  unfold Lattice.isClass Lattice.flag at hc
  unfold Lattice.tri
  cases h : L.row i with
  | none => simp [h] at hc
  | some r =>
    simp only [h] at hc ⊢
    have hr := (List.all_eq_true.mp hA) r (row_mem L h)
    unfold rowTotal at hr
    simp only [hc, Bool.not_true, Bool.false_or, List.all_eq_true, decide_eq_true_eq] at hr
    exact hr X (target_mem X)

theorem triToOpt_of_le {t : Nat} (h : t ≤ 1) : triToOpt t = some (t == 1) := by
  match t, h with
  | 0, _ => rfl
  | 1, _ => rfl

theorem gtmGet_mem {k v : Nat} (h : L.gtmGet k = some v) : ∃ e ∈ L.gtm, e.1 = k ∧ e.2.1 = v := by
  unfold Lattice.gtmGet at h
  cases hf : L.gtm.find? (fun e => e.1 == k) with
  | none => simp [hf] at h
  | some e =>
    simp only [hf, Option.some.injEq] at h
    refine ⟨e, List.mem_of_find?_eq_some hf, ?_, h⟩
    have := List.find?_some hf
    simpa using this

theorem gtm_entry (hG : gtmOk L = true) {e : Nat × Nat × Bool} (he : e ∈ L.gtm) :
    gtmKeyOk L e = true ∧ gtmValueOk L e = true ∧ gtmSpellingOk L e = true := by
  have := (List.all_eq_true.mp hG) e he
  simpa [Bool.and_eq_true, and_assoc] using this

/-- `_check_generics` behind the `isbuiltintype` guard is just the map. -/
theorem genericsStep_base (hG : gtmOk L = true) (c : Nat) : genericsStep L (.base c) = .base (L.gtmOr c) := by
  unfold genericsStep
  cases hg : L.gtmGet c with
  | none => simp [checkGenerics, Lattice.gtmOr, hg]
  | some v =>
    obtain ⟨e, he, hk, _⟩ := gtmGet_mem L hg
    have hkey := (gtm_entry L hG he).1
    unfold gtmKeyOk at hkey
    rw [hk] at hkey
    simp only [Bool.and_eq_true, Bool.not_eq_true'] at hkey
    have hb : isbuiltintypeM L (.base c) = false := by
      simp [isbuiltintypeM, inBuiltin, resolveSupertype, hkey.1, hkey.2]
    simp [hb, checkGenerics]

theorem genericsStep_nonbase {a : Ann} (h : a.isBase = false) : genericsStep L a = a := by
  unfold genericsStep
  cases a <;> simp_all [checkGenerics, Ann.isBase]

theorem callableStep_nonbase {a : Ann} (h : a.isBase = false) : callableStep L a = a := by
  cases a <;> simp_all [callableStep, iscallableM, Ann.isBase]

theorem isBaseId_eq {a : Ann} {i : Nat} (h : a.isBaseId i = true) : a = .base i := by
  cases a <;> simp_all [Ann.isBaseId]


/-! ## 3. `origin` on NewType* ∘ alias? chains -/

/-- Class-like cores: a base object or a subscripted generic (either spelling). -/
def coreForm : Ann → Bool
  | .base _ => true
  | .sub _ _ => true
  | _ => false

/-- The chains `origin` resolves by itself: any number of NewTypes, then at most one alias, then a core. -/
def directOk : Ann → Bool
  | .newtype a => directOk a
  | .alias a => coreForm a
  | a => coreForm a

theorem strip_core {a : Ann} (h : coreForm a = true) : strip a = a := by
  cases a <;> simp_all [coreForm, strip]

theorem originM_newtype (a : Ann) : originM L (.newtype a) = originM L a := by
  simp [originM, resolveSupertype]

theorem getOriginOr_core {a : Ann} (h : coreForm a = true) {c0 : Nat} (ht : tyOrigin L a = some c0) :
    getOriginOr L a = .base c0 := by
  cases a <;> simp_all [coreForm, tyOrigin, getOriginOr]

theorem originM_core {a : Ann} (h : coreForm a = true) {c0 : Nat} (ht : tyOrigin L a = some c0) :
    originM L a = callableStep L (genericsStep L (.base c0)) := by
  have : aliasValue (classVarArg L (resolveSupertype a)) = a := by
    cases a <;> simp_all [coreForm, resolveSupertype, classVarArg, aliasValue]
  unfold originM
  rw [this, getOriginOr_core L h ht]

theorem originM_alias_core {a : Ann} (h : coreForm a = true) {c0 : Nat} (ht : tyOrigin L a = some c0) :
    originM L (.alias a) = callableStep L (genericsStep L (.base c0)) := by
  unfold originM
  simp only [resolveSupertype, classVarArg, aliasValue]
  rw [getOriginOr_core L h ht]

theorem originM_direct : ∀ (a : Ann), directOk a = true → ∀ c0, tyOrigin L (strip a) = some c0 →
    originM L a = callableStep L (genericsStep L (.base c0))
  | .newtype a, hd, c0, ht => by
    rw [originM_newtype]
    exact originM_direct a (by simpa [directOk] using hd) c0 (by simpa [strip] using ht)
  | .alias a, hd, c0, ht => by
    have hc : coreForm a = true := by simpa [directOk] using hd
    have ht' : tyOrigin L a = some c0 := by simpa [strip, strip_core hc] using ht
    exact originM_alias_core L hc ht'
  | .base i, _, c0, ht => originM_core L (a := .base i) rfl (by simpa [strip] using ht)
  | .sub g args, _, c0, ht => originM_core L (a := .sub g args) rfl (by simpa [strip] using ht)
  | .union _ _, hd, _, _ => by simp [directOk, coreForm] at hd
  | .literal _, hd, _, _ => by simp [directOk, coreForm] at hd
  | .final _, hd, _, _ => by simp [directOk, coreForm] at hd
  | .classvar _, hd, _, _ => by simp [directOk, coreForm] at hd
  | .tvarBound _, hd, _, _ => by simp [directOk, coreForm] at hd
  | .tvarConstr _, hd, _, _ => by simp [directOk, coreForm] at hd
  | .tvarFree, hd, _, _ => by simp [directOk, coreForm] at hd
  | .fref _ _, hd, _, _ => by simp [directOk, coreForm] at hd

/-- The annotation resolves to the class `c`: a class per the runtime, and not a callable one. -/
structure ResolvesTo (a : Ann) (c : Nat) : Prop where
  resolved : resolvedClass L a = some c
  isClass : L.isClass c = true
  notCallable : L.callable c = false

/-- **`origin` returns the resolved class** on NewType* ∘ alias? chains over either spelling. -/
theorem originM_resolved (hA : adequate L = true) {a : Ann} (hd : directOk a = true) {c : Nat}
    (hr : ResolvesTo L a c) : originM L a = .base c := by
  have hG : gtmOk L = true := by
    simp only [adequate, Bool.and_eq_true] at hA; exact hA.1.1.2
  have hres := hr.resolved
  unfold resolvedClass at hres
  cases ht : tyOrigin L (strip a) with
  | none => simp [ht] at hres
  | some c0 =>
    simp only [ht, Option.map_some, Option.some.injEq] at hres
    rw [originM_direct L a hd c0 ht, genericsStep_base L hG, hres]
    simp [callableStep, iscallableM, hr.notCallable]


/-! ## 4. Class-valued predicates built on `origin` agree with the runtime -/

theorem adequate_rows (hA : adequate L = true) : rowsOk L = true := by
  simp only [adequate, Bool.and_eq_true] at hA; exact hA.1.1.1.1
theorem adequate_origins (hA : adequate L = true) : originsOk L = true := by
  simp only [adequate, Bool.and_eq_true] at hA; exact hA.1.1.1.2
theorem adequate_gtm (hA : adequate L = true) : gtmOk L = true := by
  simp only [adequate, Bool.and_eq_true] at hA; exact hA.1.1.2
theorem adequate_collections (hA : adequate L = true) : collectionsOk L = true := by
  simp only [adequate, Bool.and_eq_true] at hA; exact hA.1.2
theorem adequate_special (hA : adequate L = true) : specialOk L = true := by
  simp only [adequate, Bool.and_eq_true] at hA; exact hA.2

/-- The runtime's answer for a resolved class. -/
theorem specSub_resolved {a : Ann} {c : Nat} (hr : ResolvesTo L a c) (X : Target) :
    specSub L X a = some (L.tri X c == 1) := by
  simp [specSub, hr.resolved, hr.isClass]

/-- **Group A, generic form.**  For every target `X`, every NewType* ∘ alias? chain of ANY length over a base or a
    subscripted generic in either spelling: `issubclass(origin(a), X)` does not raise and is the runtime's
    `issubclass(resolved class, X)`. -/
theorem predA_agrees (hA : adequate L = true) (X : Target) {a : Ann} (hd : directOk a = true) {c : Nat}
    (hr : ResolvesTo L a c) : predA L X a = specSub L X a := by
  rw [specSub_resolved L hr]
  unfold predA
  rw [originM_resolved L hA hd hr]
  exact triToOpt_of_le (tri_le_of_class L (adequate_rows L hA) hr.isClass X)

theorem isdatetype_agrees (hA : adequate L = true) {a : Ann} (hd : directOk a = true) {c : Nat}
    (hr : ResolvesTo L a c) : isdatetypeM L a = specSub L .date a := predA_agrees L hA .date hd hr
theorem isdatetimetype_agrees (hA : adequate L = true) {a : Ann} (hd : directOk a = true) {c : Nat}
    (hr : ResolvesTo L a c) : isdatetimetypeM L a = specSub L .datetime a := predA_agrees L hA .datetime hd hr
theorem istimetype_agrees (hA : adequate L = true) {a : Ann} (hd : directOk a = true) {c : Nat}
    (hr : ResolvesTo L a c) : istimetypeM L a = specSub L .time a := predA_agrees L hA .time hd hr
theorem istimedeltatype_agrees (hA : adequate L = true) {a : Ann} (hd : directOk a = true) {c : Nat}
    (hr : ResolvesTo L a c) : istimedeltatypeM L a = specSub L .timedelta a := predA_agrees L hA .timedelta hd hr
theorem isdecimaltype_agrees (hA : adequate L = true) {a : Ann} (hd : directOk a = true) {c : Nat}
    (hr : ResolvesTo L a c) : isdecimaltypeM L a = specSub L .decimal a := predA_agrees L hA .decimal hd hr
theorem isfractiontype_agrees (hA : adequate L = true) {a : Ann} (hd : directOk a = true) {c : Nat}
    (hr : ResolvesTo L a c) : isfractiontypeM L a = specSub L .fraction a := predA_agrees L hA .fraction hd hr
theorem isuuidtype_agrees (hA : adequate L = true) {a : Ann} (hd : directOk a = true) {c : Nat}
    (hr : ResolvesTo L a c) : isuuidtypeM L a = specSub L .uuid a := predA_agrees L hA .uuid hd hr
theorem isiterabletype_agrees (hA : adequate L = true) {a : Ann} (hd : directOk a = true) {c : Nat}
    (hr : ResolvesTo L a c) : isiterabletypeM L a = specSub L .iterable a := predA_agrees L hA .iterable hd hr
theorem isiteratortype_agrees (hA : adequate L = true) {a : Ann} (hd : directOk a = true) {c : Nat}
    (hr : ResolvesTo L a c) : isiteratortypeM L a = specSub L .iterator a := predA_agrees L hA .iterator hd hr

/-- `istupletype`: the extra `obj is tuple` disjunct changes nothing. -/
theorem istupletype_agrees (hA : adequate L = true) {a : Ann} (hd : directOk a = true) {c : Nat}
    (hr : ResolvesTo L a c) : istupletypeM L a = specSub L .tuple a := by
  unfold istupletypeM
  rw [predA_agrees L hA .tuple hd hr, originM_resolved L hA hd hr, specSub_resolved L hr]
  by_cases h : c = L.tupleId
  · have ht : L.tri .tuple L.tupleId = 1 := by
      have := adequate_special L hA
      simp only [specialOk, Bool.and_eq_true, beq_iff_eq] at this
      exact this.1.1.1.1.1.2
    simp [Ann.isBaseId, h, ht]
  · simp [Ann.isBaseId, h]

theorem inCollections_collection (hA : adequate L = true) {c : Nat} (h : L.flag (·.inCollections) c = true) :
    L.tri .collection c = 1 := by
  unfold Lattice.flag at h
  unfold Lattice.tri
  cases hrow : L.row c with
  | none => simp [hrow] at h
  | some r =>
    simp only [hrow] at h ⊢
    have := (List.all_eq_true.mp (adequate_collections L hA)) r (row_mem L hrow)
    simpa [rowCollectionOk, h] using this

/-- `iscollectiontype`: `_COLLECTIONS` adds nothing to `issubclass(·, Collection)`. -/
theorem iscollectiontype_agrees (hA : adequate L = true) {a : Ann} (hd : directOk a = true) {c : Nat}
    (hr : ResolvesTo L a c) : iscollectiontypeM L a = specSub L .collection a := by
  unfold iscollectiontypeM
  rw [predA_agrees L hA .collection hd hr, originM_resolved L hA hd hr, specSub_resolved L hr]
  by_cases h : L.flag (·.inCollections) c = true
  · simp [inCollections, h, inCollections_collection L hA h]
  · simp [inCollections, h]

/-- The documented meaning of `issequencetype` (its docstring): Collection-like membership. -/
def specSequence (a : Ann) : Option Bool := specSub L .collection a

/-- The resolved class is treated alike by the code (`in _COLLECTIONS or issubclass(·, Sequence)`) and by the
    documented meaning (`issubclass(·, Collection)`). -/
def seqConsistent (c : Nat) : Bool :=
  (L.flag (·.inCollections) c || L.tri .sequence c == 1) == (L.tri .collection c == 1)

/- Full statement (FALSE on the code as it stands, see `issequencetype_disagrees_witness`):
     directOk a → ResolvesTo L a c → issequencetypeM L a = specSequence L a. -/
theorem issequencetype_agrees_partial (hA : adequate L = true) {a : Ann} (hd : directOk a = true) {c : Nat}
    (hr : ResolvesTo L a c) (hs : seqConsistent L c = true) : issequencetypeM L a = specSequence L a := by
  unfold issequencetypeM specSequence
  rw [predA_agrees L hA .sequence hd hr, originM_resolved L hA hd hr, specSub_resolved L hr, specSub_resolved L hr]
  unfold seqConsistent at hs
  by_cases h : L.flag (·.inCollections) c = true
  · simp [inCollections, h] at hs ⊢; simp [hs]
  · simp [inCollections, h] at hs ⊢; simp [hs]

/-- `ismappingtype`: the Mapping ABC, or one of the library's named mapping-like classes (`_MAPPING_TYPES`). -/
def specMapping (a : Ann) : Option Bool :=
  match resolvedClass L a with
  | some c => if L.isClass c then some (L.tri .mappingTypes c == 1 || L.tri .mapping c == 1) else none
  | none => none

theorem ismappingtype_agrees (hA : adequate L = true) {a : Ann} (hd : directOk a = true) {c : Nat}
    (hr : ResolvesTo L a c) : ismappingtypeM L a = specMapping L a := by
  unfold ismappingtypeM specMapping
  rw [originM_resolved L hA hd hr]
  simp only [hr.resolved, hr.isClass, if_true, issubTri]
  have h1 := tri_le_of_class L (adequate_rows L hA) hr.isClass .mappingTypes
  have h2 := tri_le_of_class L (adequate_rows L hA) hr.isClass .mapping
  generalize L.tri .mappingTypes c = t1 at h1 ⊢
  generalize L.tri .mapping c = t2 at h2 ⊢
  match t1, t2, h1, h2 with
  | 0, 0, _, _ => rfl
  | 0, 1, _, _ => rfl
  | 1, 0, _, _ => rfl
  | 1, 1, _, _ => rfl

/-- "Never raises" inside the domain: each of the thirteen answers is `some _`. -/
theorem predA_never_raises (hA : adequate L = true) (X : Target) {a : Ann} (hd : directOk a = true) {c : Nat}
    (hr : ResolvesTo L a c) : (predA L X a).isSome = true := by
  rw [predA_agrees L hA X hd hr, specSub_resolved L hr]; rfl

end Typelib.C17
