/-
  C11 — Aliases, NewTypes and qualifiers are transparent.

  In the model a NewType / TypeAliasType / Final / ClassVar layer is `Ty.wrap w t`; `um`/`mar` look
  through it (`inspection.unwrap`, py/inspection.py:1489-1511; the context is filled under both the
  wrapped and the unwrapped annotation, graph.py:154-185), at the price of one unit of the model's
  recursion fuel.  `erase` drops every wrapper at every depth; the theorems say that the routine for
  an annotation and the routine for its erasure have the same outcome on every input — at the root,
  as collection argument, mapping key/value, tuple member, union member and (erasing the class
  environment as well) class field — as soon as the fuel suffices, with an explicit fuel bound that
  does not depend on the input.

  Union members: `inspection.isoptionaltype` and both union routines test `isnonetype(unwrap(a))`
  (fixed after this check found `unmarshal(Union[str, AliasOfNone], None) == 'None'`), i.e.
  `Ty.isNone` sees through wrappers; hence `(erase m).isNone = m.isNone` (`erase_isNone`) and a
  union and its erasure agree on nullability, on the members tried and on their order.  The theorems
  carry no side condition on the annotation or on the environment.
-/
import TypelibModel.Lemmas.Fuel
import TypelibModel.Lemmas.RoundTrip
import TypelibModel.Model.Leaf
namespace Typelib.C11
open Typelib

/-! ### Erasure, wrapper depth, the side condition -/

mutual
  /-- The annotation with every NewType / alias / qualifier layer removed, at every depth. -/
  def erase : Ty → Ty
    | .scalar s => .scalar s
    | .none => .none
    | .any => .any
    | .enum c => .enum c
    | .literal vs => .literal vs
    | .coll k e => .coll k (erase e)
    | .tuple es => .tuple (erases es)
    | .dict k e => .dict (erase k) (erase e)
    | .union ms => .union (erases ms)
    | .cls c => .cls c
    | .wrap _ t => erase t
  termination_by structural t => t
  def erases : List Ty → List Ty
    | [] => []
    | t :: ts => erase t :: erases ts
  termination_by structural ts => ts
end

mutual
  /-- The maximum number of wrapper layers on a root-to-leaf path of the annotation. -/
  def wrapDepth : Ty → Nat
    | .scalar _ => 0
    | .none => 0
    | .any => 0
    | .enum _ => 0
    | .literal _ => 0
    | .coll _ e => wrapDepth e
    | .tuple es => wrapDepths es
    | .dict k e => max (wrapDepth k) (wrapDepth e)
    | .union ms => wrapDepths ms
    | .cls _ => 0
    | .wrap _ t => wrapDepth t + 1
  termination_by structural t => t
  def wrapDepths : List Ty → Nat
    | [] => 0
    | t :: ts => max (wrapDepth t) (wrapDepths ts)
  termination_by structural ts => ts
end

/-- A chain of wrappers around `t`. -/
def wrapN : List Wrapper → Ty → Ty
  | [], t => t
  | w :: ws, t => .wrap w (wrapN ws t)

theorem erases_eq_map : ∀ ts : List Ty, erases ts = ts.map erase := by
  intro ts
  induction ts with
  | nil => rfl
  | cons t ts ih => simp [erases, ih]

theorem wrapDepths_mem : ∀ {ts : List Ty} {t : Ty}, t ∈ ts → wrapDepth t ≤ wrapDepths ts := by
  intro ts
  induction ts with
  | nil => intro t h; cases h
  | cons a as ih =>
    intro t h
    simp only [wrapDepths]
    cases h with
    | head => exact Nat.le_max_left _ _
    | tail _ hm => exact Nat.le_trans (ih hm) (Nat.le_max_right _ _)

/-- `None`-ness of a union member is seen through wrappers (`isnonetype(unwrap(a))`), so erasing
    does not change which members a union treats as `None`. -/
theorem erase_isNone : ∀ m : Ty, (erase m).isNone = m.isNone
  | .wrap _ t => by simp only [erase, Ty.isNone]; exact erase_isNone t
  | .scalar _ | .none | .any | .enum _ | .literal _ | .coll _ _ | .tuple _ | .dict _ _ | .union _ | .cls _ => rfl

theorem erase_wrapN (ws : List Wrapper) (t : Ty) : erase (wrapN ws t) = erase t := by
  induction ws with
  | nil => rfl
  | cons w ws ih => simp only [wrapN, erase, ih]

theorem wrapDepth_wrapN (ws : List Wrapper) (t : Ty) : wrapDepth (wrapN ws t) = wrapDepth t + ws.length := by
  induction ws with
  | nil => rfl
  | cons w ws ih => simp only [wrapN, wrapDepth, ih, List.length_cons]; omega

/-! ### (a) One wrapper, a chain of wrappers -/

/-- A wrapper hands over to the routine of what it wraps (one unit of fuel). -/
theorem um_wrap (env : Env) (L : Leaves) (n : Nat) (w : Wrapper) (t : Ty) (x : Val) :
    um env L (n + 1) (.wrap w t) x = um env L n t x := rfl

theorem mar_wrap (env : Env) (L : Leaves) (n : Nat) (w : Wrapper) (t : Ty) (v : Val) :
    mar env L (n + 1) (.wrap w t) v = mar env L n t v := rfl

/-- … and so does a chain of any length, of any mix of NewType / alias / Final / ClassVar. -/
theorem um_wrapN (env : Env) (L : Leaves) (n : Nat) (ws : List Wrapper) (t : Ty) (x : Val) :
    um env L (n + ws.length) (wrapN ws t) x = um env L n t x := by
  induction ws with
  | nil => rfl
  | cons w ws ih => exact ih

theorem mar_wrapN (env : Env) (L : Leaves) (n : Nat) (ws : List Wrapper) (t : Ty) (v : Val) :
    mar env L (n + ws.length) (wrapN ws t) v = mar env L n t v := by
  induction ws with
  | nil => rfl
  | cons w ws ih => exact ih

/-! ### Class environments -/

def eraseFields (fs : List (Str × Ty)) : List (Str × Ty) := fs.map (fun p => (p.1, erase p.2))

def eraseCI (ci : ClassInfo) : ClassInfo := { ci with fields := eraseFields ci.fields }

/-- The environment with every field annotation erased. -/
def eraseEnv (env : Env) : Env := env.map eraseCI

def maxOf : List Nat → Nat
  | [] => 0
  | x :: xs => max x (maxOf xs)

theorem le_maxOf : ∀ {l : List Nat} {x : Nat}, x ∈ l → x ≤ maxOf l := by
  intro l
  induction l with
  | nil => intro x h; cases h
  | cons a as ih =>
    intro x h
    simp only [maxOf]
    cases h with
    | head => exact Nat.le_max_left _ _
    | tail _ hm => exact Nat.le_trans (ih hm) (Nat.le_max_right _ _)

def classWrapDepth (ci : ClassInfo) : Nat := maxOf (ci.fields.map (fun p => wrapDepth p.2))

/-- The deepest wrapper nesting among all field annotations of the environment. -/
def envWrapDepth (env : Env) : Nat := maxOf (env.map classWrapDepth)

theorem fieldsOf_mem {env : Env} {c : Nat} {p : Str × Ty} (h : p ∈ fieldsOf env c) :
    ∃ ci ∈ env, p ∈ ci.fields := by
  unfold fieldsOf at h
  cases hc : env.cls c with
  | none => simp [hc] at h
  | some ci =>
    simp only [hc] at h
    unfold Env.cls at hc
    exact ⟨ci, List.mem_of_getElem? hc, h⟩

theorem field_wrapDepth {env : Env} {c : Nat} {p : Str × Ty} (h : p ∈ fieldsOf env c) :
    wrapDepth p.2 ≤ envWrapDepth env := by
  obtain ⟨ci, hci, hp⟩ := fieldsOf_mem h
  have h1 : wrapDepth p.2 ≤ classWrapDepth ci :=
    le_maxOf (List.mem_map.mpr ⟨p, hp, rfl⟩)
  have h2 : classWrapDepth ci ≤ envWrapDepth env :=
    le_maxOf (List.mem_map.mpr ⟨ci, hci, rfl⟩)
  exact Nat.le_trans h1 h2

/-! ### Everything but the field annotations is untouched by `eraseEnv` -/

theorem cls_eraseEnv (env : Env) (c : Nat) : (eraseEnv env).cls c = (env.cls c).map eraseCI := by
  simp [eraseEnv, Env.cls]

theorem memberValue_erase (env : Env) : memberValue (eraseEnv env) = memberValue env := by
  funext c i
  unfold memberValue
  rw [cls_eraseEnv]
  cases env.cls c <;> rfl

theorem isStrMixin_erase (env : Env) : isStrMixin (eraseEnv env) = isStrMixin env := by
  funext c
  unfold isStrMixin
  rw [cls_eraseEnv]
  cases env.cls c <;> rfl

theorem flavourOf_erase (env : Env) : flavourOf (eraseEnv env) = flavourOf env := by
  funext c
  unfold flavourOf
  rw [cls_eraseEnv]
  cases env.cls c <;> rfl

theorem isText_erase (env : Env) : isText (eraseEnv env) = isText env := by
  funext v
  unfold isText
  simp only [isStrMixin_erase]

theorem load_erase (env : Env) (L : Leaves) : load (eraseEnv env) L = load env L := by
  funext v
  unfold load
  simp only [isStrMixin_erase, memberValue_erase]

theorem intVal_erase (env : Env) : intVal? (eraseEnv env) = intVal? env := by
  funext v
  cases v <;> try rfl
  case member c i =>
    simp only [intVal?]
    rw [cls_eraseEnv]
    cases env.cls c <;> rfl

theorem pyEq_erase (env : Env) : pyEq? (eraseEnv env) = pyEq? env := by
  funext w v
  unfold pyEq?
  simp only [isStrMixin_erase, memberValue_erase, intVal_erase]

theorem pyMem_erase (env : Env) : pyMem? (eraseEnv env) = pyMem? env := by
  funext v vs
  induction vs with
  | nil => rfl
  | cons w ws ih => simp only [pyMem?, pyEq_erase, ih]

theorem itervalues_erase (env : Env) : itervalues (eraseEnv env) = itervalues env := by
  funext v
  unfold itervalues
  simp only [isStrMixin_erase, memberValue_erase, flavourOf_erase]

theorem pairShaped_erase (env : Env) : pairShaped (eraseEnv env) = pairShaped env := by
  funext v
  unfold pairShaped
  simp only [isStrMixin_erase, memberValue_erase, flavourOf_erase]

theorem unpackPair_erase (env : Env) : unpackPair (eraseEnv env) = unpackPair env := by
  funext v
  unfold unpackPair
  simp only [flavourOf_erase]

theorem itemsOfSeq_erase (env : Env) : itemsOfSeq (eraseEnv env) = itemsOfSeq env := by
  funext xs
  unfold itemsOfSeq
  simp only [pairShaped_erase, unpackPair_erase]

theorem itemsOfSet_erase (env : Env) : itemsOfSet (eraseEnv env) = itemsOfSet env := by
  funext xs
  unfold itemsOfSet
  simp only [pairShaped_erase, itemsOfSeq_erase]

theorem iteritems_erase (env : Env) : iteritems (eraseEnv env) = iteritems env := by
  funext v
  unfold iteritems
  simp only [isStrMixin_erase, memberValue_erase, flavourOf_erase, itemsOfSeq_erase, itemsOfSet_erase]

theorem lookupByValue_erase (env : Env) : lookupByValue (eraseEnv env) = lookupByValue env := by
  funext c d
  unfold lookupByValue
  rw [cls_eraseEnv, pyEq_erase]
  cases env.cls c <;> rfl

theorem umEnum_erase (env : Env) (L : Leaves) : umEnum (eraseEnv env) L = umEnum env L := by
  funext c v
  unfold umEnum
  simp only [load_erase, lookupByValue_erase, isText_erase, isStrMixin_erase]

theorem construct_erase (ci : ClassInfo) (c : Nat) (kw : List (Str × Val)) :
    construct (eraseCI ci) c kw = construct ci c kw := by
  unfold construct
  have : mapR (fieldArg (eraseCI ci) kw) (eraseCI ci).fields = mapR (fieldArg ci kw) ci.fields := by
    show mapR (fieldArg (eraseCI ci) kw) (ci.fields.map (fun p => (p.1, erase p.2))) = _
    rw [mapR_map]
    rfl
  rw [this]

theorem umStruct_erase (env : Env) (c : Nat) : umStruct (eraseEnv env) c = umStruct env c := by
  funext conv d
  unfold umStruct
  rw [cls_eraseEnv, iteritems_erase]
  cases env.cls c with
  | none => rfl
  | some ci =>
    simp only [Option.map_some, construct_erase]
    rfl

theorem fieldsOf_erase (env : Env) (c : Nat) : fieldsOf (eraseEnv env) c = eraseFields (fieldsOf env c) := by
  unfold fieldsOf
  rw [cls_eraseEnv]
  cases env.cls c <;> rfl

/-- Looking a converter up in the erased field table = looking it up in the original table and
    converting by the erased annotation. -/
theorem convOf_eraseFields (fields : List (Str × Ty)) (F : Ty → Val → R Val) :
    convOf (eraseFields fields) F = convOf fields (fun t => F (erase t)) := by
  funext name
  unfold convOf eraseFields
  induction fields with
  | nil => rfl
  | cons p ps ih =>
    simp only [List.map_cons, List.find?_cons]
    cases p.1 == name with
    | true => rfl
    | false => exact ih

/-! ### Two environments that differ in field annotations only -/

/-- What the routine semantics consults of an environment besides the field annotations. -/
structure Agree (E1 E2 : Env) : Prop where
  load : ∀ L, load E1 L = load E2 L
  itervalues : itervalues E1 = itervalues E2
  iteritems : iteritems E1 = iteritems E2
  pyMem : pyMem? E1 = pyMem? E2
  umEnum : ∀ L, umEnum E1 L = umEnum E2 L
  umStruct : ∀ c, umStruct E1 c = umStruct E2 c
  memberValue : memberValue E1 = memberValue E2
  clsSome : ∀ c, (E1.cls c).isSome = (E2.cls c).isSome

theorem Agree.refl (E : Env) : Agree E E :=
  ⟨fun _ => rfl, rfl, rfl, rfl, fun _ => rfl, fun _ => rfl, rfl, fun _ => rfl⟩

theorem Agree.symm {E1 E2 : Env} (A : Agree E1 E2) : Agree E2 E1 :=
  ⟨fun L => (A.load L).symm, A.itervalues.symm, A.iteritems.symm, A.pyMem.symm,
   fun L => (A.umEnum L).symm, fun c => (A.umStruct c).symm, A.memberValue.symm, fun c => (A.clsSome c).symm⟩

theorem agree_eraseEnv (env : Env) : Agree (eraseEnv env) env where
  load := load_erase env
  itervalues := itervalues_erase env
  iteritems := iteritems_erase env
  pyMem := pyMem_erase env
  umEnum := umEnum_erase env
  umStruct := umStruct_erase env
  memberValue := memberValue_erase env
  clsSome := by intro c; rw [cls_eraseEnv]; cases env.cls c <;> rfl

/-- `envB true env` is the erased environment, `envB false env` the environment itself: one proof
    serves both "wrappers in the annotation only" and "wrappers in the class fields as well". -/
def envB : Bool → Env → Env
  | true, env => eraseEnv env
  | false, env => env

/-- Extra fuel per class level. -/
def WB : Bool → Env → Nat
  | true, env => envWrapDepth env
  | false, _ => 0

theorem agree_envB (b : Bool) (env : Env) : Agree (envB b env) env := by
  cases b
  · exact Agree.refl env
  · exact agree_eraseEnv env

/-! ### Congruence of each composite routine in its member routines, across agreeing environments -/

section cong
variable {E1 E2 : Env} (A : Agree E1 E2) (L : Leaves) {a b : Nat}
include A

omit A in
theorem um_scalar_cong (s : Scalar) (x : Val) : um E2 L (b + 1) (.scalar s) x = um E1 L (a + 1) (.scalar s) x := rfl
omit A in
theorem um_none_cong (x : Val) : um E2 L (b + 1) .none x = um E1 L (a + 1) .none x := rfl
omit A in
theorem um_any_cong (x : Val) : um E2 L (b + 1) .any x = um E1 L (a + 1) .any x := rfl

theorem um_literal_cong (vs : List Val) (x : Val) :
    um E2 L (b + 1) (.literal vs) x = um E1 L (a + 1) (.literal vs) x := by
  simp only [um, A.load, A.pyMem]

theorem um_enum_cong (c : Nat) (x : Val) : um E2 L (b + 1) (.enum c) x = um E1 L (a + 1) (.enum c) x := by
  simp only [um, A.umEnum]

theorem um_coll_cong {k : Coll} {e1 e2 : Ty} (h : Pres (um E1 L a e1) (um E2 L b e2)) :
    Pres (um E1 L (a + 1) (.coll k e1)) (um E2 L (b + 1) (.coll k e2)) := by
  intro x hne
  simp only [um_coll, A.load, A.itervalues] at hne ⊢
  cases h1 : (load E2 L x).bind (itervalues E2) with
  | error er => rfl
  | ok xs =>
    simp only [h1] at hne ⊢
    have hm : mapR (um E1 L a e1) xs ≠ .error .fuel := by
      intro hc; rw [hc] at hne; exact hne rfl
    rw [mapR_pres h xs hm]

theorem um_tuple_cong (ts : List Ty) (ρ1 ρ2 : Ty → Ty)
    (h : ∀ t ∈ ts, Pres (um E1 L a (ρ1 t)) (um E2 L b (ρ2 t))) :
    Pres (um E1 L (a + 1) (.tuple (ts.map ρ1))) (um E2 L (b + 1) (.tuple (ts.map ρ2))) := by
  intro x hne
  simp only [um_tuple, A.load, A.itervalues, List.map_map, List.length_map] at hne ⊢
  cases h1 : (load E2 L x).bind (itervalues E2) with
  | error er => rfl
  | ok xs =>
    simp only [h1] at hne ⊢
    have hm : zipR (ts.map (um E1 L a ∘ ρ1)) xs ≠ .error .fuel := by
      intro hc; rw [hc] at hne; exact hne rfl
    rw [zipR_pres (um E1 L a ∘ ρ1) (um E2 L b ∘ ρ2) ts h xs hm]

theorem um_dict_cong {k1 k2 e1 e2 : Ty} (hk : Pres (um E1 L a k1) (um E2 L b k2))
    (he : Pres (um E1 L a e1) (um E2 L b e2)) :
    Pres (um E1 L (a + 1) (.dict k1 e1)) (um E2 L (b + 1) (.dict k2 e2)) := by
  intro x hne
  simp only [um_dict, A.load, A.iteritems] at hne ⊢
  cases h1 : (load E2 L x).bind (iteritems E2) with
  | error er => rfl
  | ok items =>
    simp only [h1] at hne ⊢
    have hm : mapR (convPair (um E1 L a k1) (um E1 L a e1)) items ≠ .error .fuel := by
      intro hc; rw [hc] at hne; exact hne rfl
    rw [mapR_pres (convPair_pres hk he) items hm]

theorem um_cls_cong (c : Nat)
    (h : PresOpt (convOf (fieldsOf E1 c) (um E1 L a)) (convOf (fieldsOf E2 c) (um E2 L b))) :
    Pres (um E1 L (a + 1) (.cls c)) (um E2 L (b + 1) (.cls c)) := by
  intro x hne
  simp only [um_cls, A.load, A.umStruct] at hne ⊢
  exact bind_pres _ (umStruct_pres E2 c h) hne

omit A in
theorem mar_scalar_cong (s : Scalar) (x : Val) : mar E2 L (b + 1) (.scalar s) x = mar E1 L (a + 1) (.scalar s) x := rfl
omit A in
theorem mar_leaf_cong (x : Val) :
    mar E2 L (b + 1) .none x = mar E1 L (a + 1) .none x ∧ mar E2 L (b + 1) .any x = mar E1 L (a + 1) .any x ∧
    ∀ vs, mar E2 L (b + 1) (.literal vs) x = mar E1 L (a + 1) (.literal vs) x := ⟨rfl, rfl, fun _ => rfl⟩

theorem mar_enum_cong (c : Nat) (x : Val) : mar E2 L (b + 1) (.enum c) x = mar E1 L (a + 1) (.enum c) x := by
  simp only [mar, A.memberValue]

theorem mar_coll_cong {k : Coll} {e1 e2 : Ty} (h : Pres (mar E1 L a e1) (mar E2 L b e2)) :
    Pres (mar E1 L (a + 1) (.coll k e1)) (mar E2 L (b + 1) (.coll k e2)) := by
  intro x hne
  simp only [mar_coll, A.itervalues] at hne ⊢
  cases h1 : itervalues E2 x with
  | error er => rfl
  | ok xs =>
    simp only [h1] at hne ⊢
    have hm : mapR (mar E1 L a e1) xs ≠ .error .fuel := by
      intro hc; rw [hc] at hne; exact hne rfl
    rw [mapR_pres h xs hm]

theorem mar_tuple_cong (ts : List Ty) (ρ1 ρ2 : Ty → Ty)
    (h : ∀ t ∈ ts, Pres (mar E1 L a (ρ1 t)) (mar E2 L b (ρ2 t))) :
    Pres (mar E1 L (a + 1) (.tuple (ts.map ρ1))) (mar E2 L (b + 1) (.tuple (ts.map ρ2))) := by
  intro x hne
  simp only [mar_tuple, A.itervalues, List.map_map] at hne ⊢
  cases h1 : itervalues E2 x with
  | error er => rfl
  | ok xs =>
    simp only [h1] at hne ⊢
    have hm : zipR (ts.map (mar E1 L a ∘ ρ1)) xs ≠ .error .fuel := by
      intro hc; rw [hc] at hne; exact hne rfl
    rw [zipR_pres (mar E1 L a ∘ ρ1) (mar E2 L b ∘ ρ2) ts h xs hm]

theorem mar_dict_cong {k1 k2 e1 e2 : Ty} (hk : Pres (mar E1 L a k1) (mar E2 L b k2))
    (he : Pres (mar E1 L a e1) (mar E2 L b e2)) :
    Pres (mar E1 L (a + 1) (.dict k1 e1)) (mar E2 L (b + 1) (.dict k2 e2)) := by
  intro x hne
  simp only [mar_dict, A.iteritems] at hne ⊢
  cases h1 : iteritems E2 x with
  | error er => rfl
  | ok items =>
    simp only [h1] at hne ⊢
    have hm : mapR (convPair (mar E1 L a k1) (mar E1 L a e1)) items ≠ .error .fuel := by
      intro hc; rw [hc] at hne; exact hne rfl
    rw [mapR_pres (convPair_pres hk he) items hm]

omit A in
/-- `mar … (.cls c)` through `fieldsOf`. -/
theorem mar_cls' (E : Env) (n c : Nat) (v : Val) :
    mar E L (n + 1) (.cls c) v =
      if (E.cls c).isSome then
        match iteritems E v with
        | .error er => .error er
        | .ok items =>
          match buildKwargs (convOf (fieldsOf E c) (mar E L n)) items [] with
          | .error er => .error er
          | .ok kw => .ok (.dict (kw.map fun p => (.str p.1, p.2)))
      else .error .unsupported := by
  rw [mar_cls]
  unfold fieldsOf
  cases E.cls c <;> rfl

theorem mar_cls_cong (c : Nat)
    (h : PresOpt (convOf (fieldsOf E1 c) (mar E1 L a)) (convOf (fieldsOf E2 c) (mar E2 L b))) :
    Pres (mar E1 L (a + 1) (.cls c)) (mar E2 L (b + 1) (.cls c)) := by
  intro x hne
  simp only [mar_cls', A.iteritems, A.clsSome] at hne ⊢
  cases hs : (E2.cls c).isSome with
  | false => rfl
  | true =>
    simp only [hs, if_true] at hne ⊢
    cases h1 : iteritems E2 x with
    | error er => rfl
    | ok items =>
      simp only [h1] at hne ⊢
      have hm : buildKwargs (convOf (fieldsOf E1 c) (mar E1 L a)) items [] ≠ .error .fuel := by
        intro hc; rw [hc] at hne; exact hne rfl
      rw [buildKwargs_pres h items [] hm]

end cong

/-! ### Unions: `nullable` looks at the raw members -/

theorem nullable_map (ρ : Ty → Ty) : ∀ ms : List Ty, (∀ m ∈ ms, (ρ m).isNone = m.isNone) →
    nullable (ms.map ρ) = nullable ms := by
  intro ms
  induction ms with
  | nil => intro _; rfl
  | cons m ms ih =>
    intro h
    have := ih (fun m' hm' => h m' (by simp [hm']))
    unfold nullable at this ⊢
    simp only [List.map_cons, List.any_cons, h m (by simp), this]

theorem filter_notNone_map (ρ : Ty → Ty) : ∀ ms : List Ty, (∀ m ∈ ms, (ρ m).isNone = m.isNone) →
    (ms.map ρ).filter (fun m => !m.isNone) = (ms.filter (fun m => !m.isNone)).map ρ := by
  intro ms
  induction ms with
  | nil => intro _; rfl
  | cons m ms ih =>
    intro h
    have := ih (fun m' hm' => h m' (by simp [hm']))
    simp only [List.map_cons, List.filter_cons, h m (by simp), this]
    cases m.isNone <;> rfl

theorem unionOrder_map (ρ : Ty → Ty) (ms : List Ty) (h : ∀ m ∈ ms, (ρ m).isNone = m.isNone)
    (hn : ρ .none = .none) : unionOrder (ms.map ρ) = (unionOrder ms).map ρ := by
  unfold unionOrder
  rw [nullable_map ρ ms h, filter_notNone_map ρ ms h]
  cases nullable ms with
  | false => rfl
  | true => simp only [if_true, List.map_cons, hn]

theorem marUnion_map (ρ : Ty → Ty) (ms : List Ty) (h : ∀ m ∈ ms, (ρ m).isNone = m.isNone)
    (F : Ty → Val → R Val) : marUnion (ms.map ρ) F = marUnion ms (F ∘ ρ) := by
  funext v
  unfold marUnion
  rw [nullable_map ρ ms h, filter_notNone_map ρ ms h]
  simp only [List.map_map]

theorem mem_unionOrder {ms : List Ty} {t : Ty} (h : t ∈ unionOrder ms) : t = .none ∨ t ∈ ms := by
  unfold unionOrder at h
  split at h
  · cases h with
    | head => exact .inl rfl
    | tail _ hm => exact .inr (List.mem_filter.mp hm).1
  · exact .inr h

theorem um_union_cong {E1 E2 : Env} (L : Leaves) {a b : Nat} (ms : List Ty) (ρ1 ρ2 : Ty → Ty)
    (h1 : ∀ m ∈ ms, (ρ1 m).isNone = m.isNone) (h1n : ρ1 .none = .none)
    (h2 : ∀ m ∈ ms, (ρ2 m).isNone = m.isNone) (h2n : ρ2 .none = .none)
    (h : ∀ t ∈ unionOrder ms, Pres (um E1 L a (ρ1 t)) (um E2 L b (ρ2 t))) :
    Pres (um E1 L (a + 1) (.union (ms.map ρ1))) (um E2 L (b + 1) (.union (ms.map ρ2))) := by
  intro x hne
  simp only [um_union, unionOrder_map ρ1 ms h1 h1n, unionOrder_map ρ2 ms h2 h2n, List.map_map] at hne ⊢
  exact firstOk_pres (um E1 L a ∘ ρ1) (um E2 L b ∘ ρ2) (unionOrder ms) h x hne

theorem mar_union_cong {E1 E2 : Env} (L : Leaves) {a b : Nat} (ms : List Ty) (ρ1 ρ2 : Ty → Ty)
    (h1 : ∀ m ∈ ms, (ρ1 m).isNone = m.isNone) (h2 : ∀ m ∈ ms, (ρ2 m).isNone = m.isNone)
    (h : ∀ t ∈ ms, Pres (mar E1 L a (ρ1 t)) (mar E2 L b (ρ2 t))) :
    Pres (mar E1 L (a + 1) (.union (ms.map ρ1))) (mar E2 L (b + 1) (.union (ms.map ρ2))) := by
  intro x hne
  simp only [mar_union, marUnion_map ρ1 ms h1, marUnion_map ρ2 ms h2] at hne ⊢
  exact marUnion_pres (mar E1 L a ∘ ρ1) (mar E2 L b ∘ ρ2) ms h x hne

/-! ### (b) Transparency at every nested position -/

theorem exists_succ {N k : Nat} (h : k + 1 ≤ N) : ∃ N', N = N' + 1 := ⟨N - 1, by omega⟩

/-- One fuel level of `um_erase_gen`; the recursion is over the wrapper layers at the root. -/
theorem um_erase_core (b : Bool) (env : Env) (L : Leaves)
    (m : Nat)
    (ih : ∀ t, ∀ N, m + wrapDepth t + m * WB b env ≤ N →
      Pres (um (envB b env) L m (erase t)) (um env L N t)) :
    ∀ t, ∀ N, m + 1 + wrapDepth t + (m + 1) * WB b env ≤ N →
      Pres (um (envB b env) L (m + 1) (erase t)) (um env L N t)
  | .wrap w t', N, hN => by
    simp only [wrapDepth] at hN
    obtain ⟨N', rfl⟩ := exists_succ (k := m) (by omega : m + 1 ≤ N)
    intro x hne
    simp only [erase, um_wrap_succ] at hne ⊢
    exact um_erase_core b env L m ih t' N' (by omega) x hne
  | .scalar s, N, hN => by
    obtain ⟨N', rfl⟩ := exists_succ (k := m) (by omega : m + 1 ≤ N)
    intro x _; rfl
  | .none, N, hN => by
    obtain ⟨N', rfl⟩ := exists_succ (k := m) (by omega : m + 1 ≤ N)
    intro x _; rfl
  | .any, N, hN => by
    obtain ⟨N', rfl⟩ := exists_succ (k := m) (by omega : m + 1 ≤ N)
    intro x _; rfl
  | .enum c, N, hN => by
    obtain ⟨N', rfl⟩ := exists_succ (k := m) (by omega : m + 1 ≤ N)
    intro x _; exact um_enum_cong (agree_envB b env) L c x
  | .literal vs, N, hN => by
    obtain ⟨N', rfl⟩ := exists_succ (k := m) (by omega : m + 1 ≤ N)
    intro x _; exact um_literal_cong (agree_envB b env) L vs x
  | .coll k e, N, hN => by
    simp only [wrapDepth] at hN
    obtain ⟨N', rfl⟩ := exists_succ (k := m) (by omega : m + 1 ≤ N)
    have hW : (m + 1) * WB b env = m * WB b env + WB b env := Nat.succ_mul m (WB b env)
    simp only [erase]
    exact um_coll_cong (agree_envB b env) L (ih e N' (by omega))
  | .tuple es, N, hN => by
    simp only [wrapDepth] at hN
    obtain ⟨N', rfl⟩ := exists_succ (k := m) (by omega : m + 1 ≤ N)
    have hW : (m + 1) * WB b env = m * WB b env + WB b env := Nat.succ_mul m (WB b env)
    simp only [erase, erases_eq_map]
    have := um_tuple_cong (agree_envB b env) L (a := m) (b := N') es erase id
      (fun t hmem => ih t N' (by have := wrapDepths_mem hmem; omega))
    rw [List.map_id] at this
    exact this
  | .dict k e, N, hN => by
    simp only [wrapDepth] at hN
    obtain ⟨N', rfl⟩ := exists_succ (k := m) (by omega : m + 1 ≤ N)
    have hW : (m + 1) * WB b env = m * WB b env + WB b env := Nat.succ_mul m (WB b env)
    simp only [erase]
    exact um_dict_cong (agree_envB b env) L (ih k N' (by omega)) (ih e N' (by omega))
  | .union ms, N, hN => by
    simp only [wrapDepth] at hN
    obtain ⟨N', rfl⟩ := exists_succ (k := m) (by omega : m + 1 ≤ N)
    have hW : (m + 1) * WB b env = m * WB b env + WB b env := Nat.succ_mul m (WB b env)
    simp only [erase, erases_eq_map]
    have := um_union_cong (E1 := envB b env) (E2 := env) L (a := m) (b := N') ms erase id
      (fun m _ => erase_isNone m) rfl (fun _ _ => rfl) rfl
      (fun t hmem => by
        rcases mem_unionOrder hmem with rfl | hmem'
        · exact ih .none N' (by simp only [wrapDepth]; omega)
        · exact ih t N' (by have := wrapDepths_mem hmem'; omega))
    rw [List.map_id] at this
    exact this
  | .cls c, N, hN => by
    simp only [wrapDepth] at hN
    obtain ⟨N', rfl⟩ := exists_succ (k := m) (by omega : m + 1 ≤ N)
    have hW : (m + 1) * WB b env = m * WB b env + WB b env := Nat.succ_mul m (WB b env)
    simp only [erase]
    apply um_cls_cong (agree_envB b env) L
    cases b with
    | false =>
      exact convOf_pres _ _ _ (fun p _ => um_pres_le env L (by omega) p.2)
    | true =>
      show PresOpt (convOf (fieldsOf (eraseEnv env) c) _) _
      rw [fieldsOf_erase, convOf_eraseFields]
      exact convOf_pres _ _ _ (fun p hp => ih p.2 N'
        (by have := field_wrapDepth hp; simp only [WB] at hN hW ⊢; omega))

theorem um_erase_gen (b : Bool) (env : Env) (L : Leaves) :
    ∀ n t, ∀ N, n + wrapDepth t + n * WB b env ≤ N →
      Pres (um (envB b env) L n (erase t)) (um env L N t) := by
  intro n
  induction n with
  | zero => intro t N _ x h; exact absurd rfl h
  | succ m ih => exact um_erase_core b env L m ih

theorem mar_erase_core (b : Bool) (env : Env) (L : Leaves)
    (m : Nat)
    (ih : ∀ t, ∀ N, m + wrapDepth t + m * WB b env ≤ N →
      Pres (mar (envB b env) L m (erase t)) (mar env L N t)) :
    ∀ t, ∀ N, m + 1 + wrapDepth t + (m + 1) * WB b env ≤ N →
      Pres (mar (envB b env) L (m + 1) (erase t)) (mar env L N t)
  | .wrap w t', N, hN => by
    simp only [wrapDepth] at hN
    obtain ⟨N', rfl⟩ := exists_succ (k := m) (by omega : m + 1 ≤ N)
    intro x hne
    simp only [erase, mar_wrap_succ] at hne ⊢
    exact mar_erase_core b env L m ih t' N' (by omega) x hne
  | .scalar s, N, hN => by
    obtain ⟨N', rfl⟩ := exists_succ (k := m) (by omega : m + 1 ≤ N)
    intro x _; rfl
  | .none, N, hN => by
    obtain ⟨N', rfl⟩ := exists_succ (k := m) (by omega : m + 1 ≤ N)
    intro x _; rfl
  | .any, N, hN => by
    obtain ⟨N', rfl⟩ := exists_succ (k := m) (by omega : m + 1 ≤ N)
    intro x _; rfl
  | .enum c, N, hN => by
    obtain ⟨N', rfl⟩ := exists_succ (k := m) (by omega : m + 1 ≤ N)
    intro x _; exact mar_enum_cong (agree_envB b env) L c x
  | .literal vs, N, hN => by
    obtain ⟨N', rfl⟩ := exists_succ (k := m) (by omega : m + 1 ≤ N)
    intro x _; rfl
  | .coll k e, N, hN => by
    simp only [wrapDepth] at hN
    obtain ⟨N', rfl⟩ := exists_succ (k := m) (by omega : m + 1 ≤ N)
    have hW : (m + 1) * WB b env = m * WB b env + WB b env := Nat.succ_mul m (WB b env)
    simp only [erase]
    exact mar_coll_cong (agree_envB b env) L (ih e N' (by omega))
  | .tuple es, N, hN => by
    simp only [wrapDepth] at hN
    obtain ⟨N', rfl⟩ := exists_succ (k := m) (by omega : m + 1 ≤ N)
    have hW : (m + 1) * WB b env = m * WB b env + WB b env := Nat.succ_mul m (WB b env)
    simp only [erase, erases_eq_map]
    have := mar_tuple_cong (agree_envB b env) L (a := m) (b := N') es erase id
      (fun t hmem => ih t N' (by have := wrapDepths_mem hmem; omega))
    rw [List.map_id] at this
    exact this
  | .dict k e, N, hN => by
    simp only [wrapDepth] at hN
    obtain ⟨N', rfl⟩ := exists_succ (k := m) (by omega : m + 1 ≤ N)
    have hW : (m + 1) * WB b env = m * WB b env + WB b env := Nat.succ_mul m (WB b env)
    simp only [erase]
    exact mar_dict_cong (agree_envB b env) L (ih k N' (by omega)) (ih e N' (by omega))
  | .union ms, N, hN => by
    simp only [wrapDepth] at hN
    obtain ⟨N', rfl⟩ := exists_succ (k := m) (by omega : m + 1 ≤ N)
    have hW : (m + 1) * WB b env = m * WB b env + WB b env := Nat.succ_mul m (WB b env)
    simp only [erase, erases_eq_map]
    have := mar_union_cong (E1 := envB b env) (E2 := env) L (a := m) (b := N') ms erase id
      (fun m _ => erase_isNone m) (fun _ _ => rfl)
      (fun t hmem => ih t N' (by have := wrapDepths_mem hmem; omega))
    rw [List.map_id] at this
    exact this
  | .cls c, N, hN => by
    simp only [wrapDepth] at hN
    obtain ⟨N', rfl⟩ := exists_succ (k := m) (by omega : m + 1 ≤ N)
    have hW : (m + 1) * WB b env = m * WB b env + WB b env := Nat.succ_mul m (WB b env)
    simp only [erase]
    apply mar_cls_cong (agree_envB b env) L
    cases b with
    | false =>
      exact convOf_pres _ _ _ (fun p _ => mar_pres_le env L (by omega) p.2)
    | true =>
      show PresOpt (convOf (fieldsOf (eraseEnv env) c) _) _
      rw [fieldsOf_erase, convOf_eraseFields]
      exact convOf_pres _ _ _ (fun p hp => ih p.2 N'
        (by have := field_wrapDepth hp; simp only [WB] at hN hW ⊢; omega))

theorem mar_erase_gen (b : Bool) (env : Env) (L : Leaves) :
    ∀ n t, ∀ N, n + wrapDepth t + n * WB b env ≤ N →
      Pres (mar (envB b env) L n (erase t)) (mar env L N t) := by
  intro n
  induction n with
  | zero => intro t N _ x h; exact absurd rfl h
  | succ m ih => exact mar_erase_core b env L m ih

/-- **C11 (unmarshal), wrappers anywhere in the annotation** — at the root, as collection argument,
    mapping key or value, tuple member, union member, at any depth: whatever the routine of the
    wrapper-free annotation returns (any value, any exception class) on input `x`, the routine of the
    annotated-with-wrappers `t` returns on `x`, `wrapDepth t` units of fuel later. -/
theorem um_erase (env : Env) (L : Leaves) (n : Nat) (t : Ty) (x : Val) (res : R Val)
    (h : um env L n (erase t) x = res) (hne : res ≠ .error .fuel) :
    um env L (n + wrapDepth t) t x = res := by
  subst h
  exact um_erase_gen false env L n t _ (by simp [WB]) x hne

theorem mar_erase (env : Env) (L : Leaves) (n : Nat) (t : Ty) (v : Val) (res : R Val)
    (h : mar env L n (erase t) v = res) (hne : res ≠ .error .fuel) :
    mar env L (n + wrapDepth t) t v = res := by
  subst h
  exact mar_erase_gen false env L n t _ (by simp [WB]) v hne

/-- **C11 (unmarshal), wrappers in the annotation and in every class field** reachable from it:
    the program whose class fields and root annotation carry no wrappers at all and the program with
    the wrappers have the same outcome; the additional fuel `wrapDepth t + n * envWrapDepth env`
    does not depend on the input. -/
theorem um_eraseEnv (env : Env) (L : Leaves) (n : Nat) (t : Ty) (x : Val) (res : R Val)
    (h : um (eraseEnv env) L n (erase t) x = res) (hne : res ≠ .error .fuel) :
    um env L (n + wrapDepth t + n * envWrapDepth env) t x = res := by
  subst h
  exact um_erase_gen true env L n t _ (Nat.le_refl _) x hne

theorem mar_eraseEnv (env : Env) (L : Leaves) (n : Nat) (t : Ty) (v : Val) (res : R Val)
    (h : mar (eraseEnv env) L n (erase t) v = res) (hne : res ≠ .error .fuel) :
    mar env L (n + wrapDepth t + n * envWrapDepth env) t v = res := by
  subst h
  exact mar_erase_gen true env L n t _ (Nat.le_refl _) v hne

/-! ### (c) The converse: erasing wrappers only frees fuel -/

theorem um_erase_conv_gen (b : Bool) (env : Env) (L : Leaves) :
    ∀ n t, Pres (um env L n t) (um (envB b env) L n (erase t)) := by
  intro n
  induction n with
  | zero => intro t x h; exact absurd rfl h
  | succ m ih =>
    intro t
    have A := (agree_envB b env).symm
    cases t with
    | scalar s => intro x _; rfl
    | none => intro x _; rfl
    | any => intro x _; rfl
    | enum c => intro x _; exact um_enum_cong A L c x
    | literal vs => intro x _; exact um_literal_cong A L vs x
    | coll k e =>
      simp only [erase]
      exact um_coll_cong A L (ih e)
    | tuple es =>
      simp only [erase, erases_eq_map]
      have := um_tuple_cong A L (a := m) (b := m) es id erase (fun t _ => ih t)
      rw [List.map_id] at this
      exact this
    | dict k e =>
      simp only [erase]
      exact um_dict_cong A L (ih k) (ih e)
    | union ms =>
      simp only [erase, erases_eq_map]
      have := um_union_cong (E1 := env) (E2 := envB b env) L (a := m) (b := m) ms id erase
        (fun _ _ => rfl) rfl (fun m _ => erase_isNone m) rfl
        (fun t _ => ih t)
      rw [List.map_id] at this
      exact this
    | cls c =>
      simp only [erase]
      apply um_cls_cong A L
      cases b with
      | false => exact convOf_pres _ _ _ (fun p _ => Pres.refl _)
      | true =>
        show PresOpt _ (convOf (fieldsOf (eraseEnv env) c) _)
        rw [fieldsOf_erase, convOf_eraseFields]
        exact convOf_pres _ _ _ (fun p _ => ih p.2)
    | wrap w t' =>
      intro x hne
      simp only [erase, um_wrap_succ] at hne ⊢
      have e1 := ih t' x hne
      rw [← e1]
      exact um_pres_succ _ L m (erase t') x (by rw [e1]; exact hne)

theorem mar_erase_conv_gen (b : Bool) (env : Env) (L : Leaves) :
    ∀ n t, Pres (mar env L n t) (mar (envB b env) L n (erase t)) := by
  intro n
  induction n with
  | zero => intro t x h; exact absurd rfl h
  | succ m ih =>
    intro t
    have A := (agree_envB b env).symm
    cases t with
    | scalar s => intro x _; rfl
    | none => intro x _; rfl
    | any => intro x _; rfl
    | enum c => intro x _; exact mar_enum_cong A L c x
    | literal vs => intro x _; rfl
    | coll k e =>
      simp only [erase]
      exact mar_coll_cong A L (ih e)
    | tuple es =>
      simp only [erase, erases_eq_map]
      have := mar_tuple_cong A L (a := m) (b := m) es id erase (fun t _ => ih t)
      rw [List.map_id] at this
      exact this
    | dict k e =>
      simp only [erase]
      exact mar_dict_cong A L (ih k) (ih e)
    | union ms =>
      simp only [erase, erases_eq_map]
      have := mar_union_cong (E1 := env) (E2 := envB b env) L (a := m) (b := m) ms id erase
        (fun _ _ => rfl) (fun m _ => erase_isNone m)
        (fun t _ => ih t)
      rw [List.map_id] at this
      exact this
    | cls c =>
      simp only [erase]
      apply mar_cls_cong A L
      cases b with
      | false => exact convOf_pres _ _ _ (fun p _ => Pres.refl _)
      | true =>
        show PresOpt _ (convOf (fieldsOf (eraseEnv env) c) _)
        rw [fieldsOf_erase, convOf_eraseFields]
        exact convOf_pres _ _ _ (fun p _ => ih p.2)
    | wrap w t' =>
      intro x hne
      simp only [erase, mar_wrap_succ] at hne ⊢
      have e1 := ih t' x hne
      rw [← e1]
      exact mar_pres_succ _ L m (erase t') x (by rw [e1]; exact hne)

/-- Whatever the routine of `t` returns with fuel `n`, the routine of the wrapper-free annotation
    returns with the same fuel. -/
theorem um_erase_conv (env : Env) (L : Leaves) (n : Nat) (t : Ty) (x : Val) (res : R Val)
    (h : um env L n t x = res) (hne : res ≠ .error .fuel) : um env L n (erase t) x = res := by
  subst h
  exact um_erase_conv_gen false env L n t x hne

theorem mar_erase_conv (env : Env) (L : Leaves) (n : Nat) (t : Ty) (v : Val) (res : R Val)
    (h : mar env L n t v = res) (hne : res ≠ .error .fuel) : mar env L n (erase t) v = res := by
  subst h
  exact mar_erase_conv_gen false env L n t v hne

theorem um_eraseEnv_conv (env : Env) (L : Leaves) (n : Nat) (t : Ty) (x : Val) (res : R Val)
    (h : um env L n t x = res) (hne : res ≠ .error .fuel) : um (eraseEnv env) L n (erase t) x = res := by
  subst h
  exact um_erase_conv_gen true env L n t x hne

theorem mar_eraseEnv_conv (env : Env) (L : Leaves) (n : Nat) (t : Ty) (v : Val) (res : R Val)
    (h : mar env L n t v = res) (hne : res ≠ .error .fuel) : mar (eraseEnv env) L n (erase t) v = res := by
  subst h
  exact mar_erase_conv_gen true env L n t v hne

/-! ### The executable leaves do not look at field annotations either -/

theorem isIntMixin_erase (env : Env) : isIntMixin (eraseEnv env) = isIntMixin env := by
  funext c
  unfold isIntMixin
  rw [cls_eraseEnv]
  cases env.cls c <;> rfl

theorem seqElems_erase (env : Env) : seqElems (eraseEnv env) = seqElems env := by
  funext v; unfold seqElems; simp only [flavourOf_erase]

theorem castInt_erase (env : Env) : castInt (eraseEnv env) = castInt env := by
  funext v; unfold castInt; simp only [memberValue_erase, isIntMixin_erase, isStrMixin_erase]

theorem umInt_erase (env : Env) : umInt (eraseEnv env) = umInt env := by
  funext v; unfold umInt; simp only [isIntMixin_erase, castInt_erase, seqElems_erase]

theorem marInt_erase (env : Env) : marInt (eraseEnv env) = marInt env := by
  funext v; unfold marInt; simp only [castInt_erase]

theorem umBool_erase (env : Env) : umBool (eraseEnv env) = umBool env := by
  funext v; unfold umBool; simp only [seqElems_erase]

theorem umFloat_erase (env : Env) : umFloat (eraseEnv env) = umFloat env := by
  funext v; unfold umFloat; simp only [seqElems_erase]

theorem pyStr_erase (env : Env) : pyStr (eraseEnv env) = pyStr env := by
  funext v; unfold pyStr; simp only [isStrMixin_erase]

theorem umStr_erase (env : Env) : umStr (eraseEnv env) = umStr env := by
  funext v; unfold umStr; simp only [isStrMixin_erase, pyStr_erase]

theorem marStr_erase (env : Env) : marStr (eraseEnv env) = marStr env := by
  funext v; unfold marStr; simp only [pyStr_erase]

theorem marToStr_erase (env : Env) : marToStr (eraseEnv env) = marToStr env := by
  funext v; unfold marToStr; simp only [marStr_erase]

theorem umDecimal_erase (env : Env) : umDecimal (eraseEnv env) = umDecimal env := by
  funext v; unfold umDecimal; simp only [seqElems_erase]

theorem umFraction_erase (env : Env) : umFraction (eraseEnv env) = umFraction env := by
  funext v; unfold umFraction; simp only [seqElems_erase]

theorem umUuid_erase (env : Env) (L : Leaves) : umUuid (eraseEnv env) L = umUuid env L := by
  funext v; unfold umUuid; simp only [load_erase]

theorem umPath_erase (env : Env) (L : Leaves) : umPath (eraseEnv env) L = umPath env L := by
  funext v; unfold umPath; simp only [load_erase, isText_erase]

theorem pyLeaves_erase (env : Env) (today : Int) : pyLeaves (eraseEnv env) today = pyLeaves env today := by
  have h1 : pyMar (eraseEnv env) = pyMar env := by
    funext s; cases s <;> simp only [pyMar, marInt_erase, marStr_erase, marToStr_erase]
  have h2 : ∀ L, pyUm (eraseEnv env) L today = pyUm env L today := by
    intro L; funext s
    cases s <;> simp only [pyUm, umInt_erase, umBool_erase, umFloat_erase, umStr_erase, umDecimal_erase,
      umFraction_erase, umUuid_erase, umPath_erase]
  unfold pyLeaves
  simp only [h1, h2]

/-- **C11 for the executable model, class fields included.** -/
theorem unmarshal_transparent (env : Env) (today : Int) (n : Nat) (t : Ty) (x : Val) (res : R Val)
    (h : um (eraseEnv env) (pyLeaves (eraseEnv env) today) n (erase t) x = res) (hne : res ≠ .error .fuel) :
    um env (pyLeaves env today) (n + wrapDepth t + n * envWrapDepth env) t x = res := by
  rw [pyLeaves_erase] at h
  exact um_eraseEnv env _ n t x res h hne

theorem marshal_transparent (env : Env) (today : Int) (n : Nat) (t : Ty) (v : Val) (res : R Val)
    (h : mar (eraseEnv env) (pyLeaves (eraseEnv env) today) n (erase t) v = res) (hne : res ≠ .error .fuel) :
    mar env (pyLeaves env today) (n + wrapDepth t + n * envWrapDepth env) t v = res := by
  rw [pyLeaves_erase] at h
  exact mar_eraseEnv env _ n t v res h hne

/-! ### An alias of `None` inside a union is `None` (the former counterexample) -/

/-- `Union[str, AliasOfNone]`, `type AliasOfNone = None`. -/
def strOrAliasNone : Ty := .union [.scalar .str, .wrap .alias .none]

example : erase strOrAliasNone = .union [.scalar .str, .none] := rfl
example : nullable [.scalar .str, .wrap .alias .none] = true := rfl

example : um [] (pyLeaves []) 4 (.union [.scalar .str, .wrap .alias .none]) .none = .ok .none := rfl
example : mar [] (pyLeaves []) 4 (.union [.scalar .str, .wrap .alias .none]) .none = .ok .none := rfl
example : um [] (pyLeaves []) 2 (erase strOrAliasNone) .none = .ok .none := rfl
/-- … and through the theorem (fuel `2 + wrapDepth = 3`). -/
example : um [] (pyLeaves []) (2 + 1) strOrAliasNone .none = .ok .none :=
  um_erase [] (pyLeaves []) 2 strOrAliasNone _ _ rfl (fun hc => nomatch hc)
example : mar [] (pyLeaves []) (2 + 1) strOrAliasNone .none = .ok .none :=
  mar_erase [] (pyLeaves []) 2 strOrAliasNone _ _ rfl (fun hc => nomatch hc)
/-- A non-null input still reaches the `str` member. -/
example : um [] (pyLeaves []) 4 strOrAliasNone (.int 5) = .ok (.str "5".toList) := rfl

/-! ### Non-vacuity -/

/-- `dict[str, N]` with `N = NewType("N", A)`, `type A = list[int]`. -/
def dictOfNewtypeOfAlias : Ty :=
  .dict (.scalar .str) (.wrap .newtype (.wrap .alias (.coll .list (.scalar .int))))

example : erase dictOfNewtypeOfAlias = .dict (.scalar .str) (.coll .list (.scalar .int)) := rfl
example : wrapDepth dictOfNewtypeOfAlias = 2 := rfl

example : um [] (pyLeaves []) 3 (erase dictOfNewtypeOfAlias) (.dict [(.str "a".toList, .list [.int 1])])
    = .ok (.dict [(.str "a".toList, .list [.int 1])]) := by rfl

/-- `um_erase` applied: hypotheses satisfiable, conclusion about the wrapped annotation. -/
example : um [] (pyLeaves []) (3 + 2) dictOfNewtypeOfAlias (.dict [(.str "a".toList, .list [.int 1])])
    = .ok (.dict [(.str "a".toList, .list [.int 1])]) :=
  um_erase [] (pyLeaves []) 3 dictOfNewtypeOfAlias _ _ rfl (fun hc => nomatch hc)

/-- … and the model computes the same by itself. -/
example : um [] (pyLeaves []) 5 dictOfNewtypeOfAlias (.dict [(.str "a".toList, .list [.int 1])])
    = .ok (.dict [(.str "a".toList, .list [.int 1])]) := by rfl

/-- A chain of three wrappers at the root. -/
example : um [] (pyLeaves []) (2 + 3) (wrapN [.final, .newtype, .alias] (.coll .list (.scalar .int))) (.list [.int 7])
    = um [] (pyLeaves []) 2 (.coll .list (.scalar .int)) (.list [.int 7]) :=
  um_wrapN [] (pyLeaves []) 2 [.final, .newtype, .alias] _ _

/-- A dataclass `C` with field `a: Final[A]`, `type A = int`; annotation `NewType("N", C)`. -/
def envFinalField : Env := [{ fields := [("a".toList, .wrap .final (.wrap .alias (.scalar .int)))] }]

example : eraseEnv envFinalField = [{ fields := [("a".toList, .scalar .int)] }] := rfl
example : envWrapDepth envFinalField = 2 := rfl

example : um (eraseEnv envFinalField) (pyLeaves (eraseEnv envFinalField)) 2 (erase (.wrap .newtype (.cls 0)))
    (.dict [(.str "a".toList, .int 1)]) = .ok (.inst 0 [("a".toList, .int 1)]) := by rfl

example : um envFinalField (pyLeaves envFinalField) (2 + 1 + 2 * 2) (.wrap .newtype (.cls 0))
    (.dict [(.str "a".toList, .int 1)]) = .ok (.inst 0 [("a".toList, .int 1)]) :=
  unmarshal_transparent envFinalField 0 2 (.wrap .newtype (.cls 0)) _ _ rfl (fun hc => nomatch hc)

example : mar envFinalField (pyLeaves envFinalField) (2 + 1 + 2 * 2) (.wrap .newtype (.cls 0))
    (.inst 0 [("a".toList, .int 1)]) = .ok (.dict [(.str "a".toList, .int 1)]) :=
  marshal_transparent envFinalField 0 2 (.wrap .newtype (.cls 0)) _ _ rfl (fun hc => nomatch hc)

end Typelib.C11
