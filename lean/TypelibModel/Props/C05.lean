/-
  C05 — Nested members are converted by their own type's rules.

  Specification side.  `um` / `mar` (`Model/Denote.lean`) are compositional by construction; the
  `denote_compositional_*` lemmas read the statement of C05 off them, one per composite constructor:
  the result for a composite is the composite rebuilt from `um` / `mar` of each member at the member's
  own annotation, whatever the field or class is called.  `struct_sources_alike`: every documented
  source shape of a structured class converts alike once it delivers the same items.

  Implementation side.  What has to be shown per program is that the routine TREE typelib actually
  built for an annotation computes exactly that.  `adequate_sound_unmarshal` /
  `adequate_sound_marshal`: the decidable validator `adequate` of `Model/Routine.lean` is sound — a
  tree it accepts for `T` computes `um T` (resp. `mar T`) on EVERY input and at every fuel.  The
  harness extracts the real tree of every generated program and has the compiled validator decide it
  (translation validation; `harness/props/c05.py`).  `graph_sound_*` discharges the one assumption of
  the tree theorems — that a `Delayed` node computes the denotation of its target — from the
  validation of the targets' own trees, by induction on fuel; no coinduction.

  Everything is about wrapper-erased annotations and environments (`erase`, `eraseEnv`); relating `T`
  and `erase T` is C11.
-/
import TypelibModel.Model.Routine
import TypelibModel.Model.Compile
import TypelibModel.Model.Leaf
import TypelibModel.Lemmas.Core
import TypelibModel.Lemmas.RoundTrip
import TypelibModel.Props.Dispatch
namespace Typelib.C05
open Typelib

/-! ### Equality lemmas for the decidable comparisons of the validator -/

theorem litEq_eq : ∀ (vs ws : List Val), litEq vs ws = true → vs = ws := by
  intro vs
  induction vs with
  | nil => intro ws h; cases ws with
    | nil => rfl
    | cons _ _ => simp [litEq] at h
  | cons v vs ih =>
    intro ws h
    cases ws with
    | nil => simp [litEq] at h
    | cons w ws =>
      simp only [litEq, Bool.and_eq_true] at h
      obtain ⟨⟨hp, hb⟩, hr⟩ := h
      rw [isPrim_beq_eq hp hb, ih ws hr]

mutual
  theorem tyBeq_eq : ∀ (a b : Ty), Ty.beq a b = true → a = b
    | .scalar s, b, h => by cases b <;> simp [Ty.beq] at h; rw [h]
    | .none, b, h => by cases b <;> simp [Ty.beq] at h; rfl
    | .any, b, h => by cases b <;> simp [Ty.beq] at h; rfl
    | .enum c, b, h => by cases b <;> simp [Ty.beq] at h; rw [h]
    | .literal vs, b, h => by cases b <;> simp [Ty.beq] at h; rw [litEq_eq _ _ h]
    | .cls c, b, h => by cases b <;> simp [Ty.beq] at h; rw [h]
    | .coll k e, b, h => by
      cases b <;> simp [Ty.beq] at h
      rename_i l e'
      rw [h.1, tyBeq_eq e e' h.2]
    | .tuple es, b, h => by
      cases b <;> simp [Ty.beq] at h
      rename_i es'
      rw [tyBeqList_eq es es' h]
    | .union es, b, h => by
      cases b <;> simp [Ty.beq] at h
      rename_i es'
      rw [tyBeqList_eq es es' h]
    | .dict k v, b, h => by
      cases b <;> simp [Ty.beq] at h
      rename_i k' v'
      rw [tyBeq_eq k k' h.1, tyBeq_eq v v' h.2]
    | .wrap w t, b, h => by
      cases b <;> simp [Ty.beq] at h
      rename_i w' t'
      rw [h.1, tyBeq_eq t t' h.2]
  theorem tyBeqList_eq : ∀ (as bs : List Ty), Ty.beqList as bs = true → as = bs
    | [], bs, h => by cases bs <;> simp [Ty.beqList] at h; rfl
    | a :: as, bs, h => by
      cases bs <;> simp [Ty.beqList] at h
      rename_i b bs'
      rw [tyBeq_eq a b h.1, tyBeqList_eq as bs' h.2]
end

/-! ### Member lists and field maps -/

section lists
variable {d : Dir} {K : Ty → Bool} {env : Env} {F : Routine → Val → R Val} {G : Ty → Val → R Val}

theorem adequates_map (H : ∀ t r, adequate d K env t r = true → F r = G t) :
    ∀ (rs : List Routine) (ts : List Ty), adequates d K env ts rs = true → rs.map F = ts.map G := by
  intro rs
  induction rs with
  | nil => intro ts h; cases ts with
    | nil => rfl
    | cons _ _ => simp [adequates] at h
  | cons r rs ih =>
    intro ts h
    cases ts with
    | nil => simp [adequates] at h
    | cons t ts =>
      simp only [adequates, Bool.and_eq_true] at h
      simp [H t r h.1, ih ts h.2]

theorem adequates_length :
    ∀ (rs : List Routine) (ts : List Ty), adequates d K env ts rs = true → rs.length = ts.length := by
  intro rs
  induction rs with
  | nil => intro ts h; cases ts with
    | nil => rfl
    | cons _ _ => simp [adequates] at h
  | cons r rs ih =>
    intro ts h
    cases ts with
    | nil => simp [adequates] at h
    | cons t ts =>
      simp only [adequates, Bool.and_eq_true] at h
      simp [ih ts h.2]

/-- The two field lookups agree: the routine's own field map (`fields_by_var[f]`) against the class's
    annotations (`convOf`), name by name — whatever other class uses the same name. -/
theorem adequateFields_conv (H : ∀ t r, adequate d K env t r = true → F r = G t) :
    ∀ (fs : List (Str × Routine)) (fields : List (Str × Ty)), adequateFields d K env fields fs = true →
      ∀ name, rconv fs F name = convOf fields G name := by
  intro fs
  induction fs with
  | nil => intro fields h name; cases fields with
    | nil => rfl
    | cons _ _ => simp [adequateFields] at h
  | cons p fs ih =>
    intro fields h name
    obtain ⟨b, r⟩ := p
    cases fields with
    | nil => simp [adequateFields] at h
    | cons q fields =>
      obtain ⟨a, t⟩ := q
      simp only [adequateFields, Bool.and_eq_true, beq_iff_eq] at h
      obtain ⟨⟨hab, hr⟩, hrest⟩ := h
      subst hab
      have := ih fields hrest name
      unfold rconv convOf at this ⊢
      by_cases hn : (a == name) = true
      · simp [List.find?, hn, H t r hr]
      · have hn' : (a == name) = false := by simpa using hn
        simp only [List.find?, hn']
        exact this

end lists

/-! ### The structured-class routine against `umStruct` -/

theorem all_congr_mem {α : Type} (p : α → Bool) (a b : List α) (hab : ∀ x, x ∈ a → x ∈ b) (hba : ∀ x, x ∈ b → x ∈ a) :
    a.all p = b.all p := by
  apply Bool.eq_iff_iff.mpr
  simp only [List.all_eq_true]
  exact ⟨fun h x hx => h x (hba x hx), fun h x hx => h x (hab x hx)⟩

theorem umStructR_eq (env : Env) (c : Nat) (req : List Str) (conv : Str → Option (Val → R Val)) (x : Val)
    (h : structOk .u env c req = true) : umStructR env c req conv x = umStruct env c conv x := by
  unfold structOk at h
  unfold umStructR umStruct
  cases hc : env.cls c with
  | none => rfl
  | some ci =>
    simp only [hc] at h
    simp only
    cases iteritems env x with
    | error e => rfl
    | ok items =>
      simp only
      cases buildKwargs conv items [] with
      | error e => rfl
      | ok kw =>
        simp only
        unfold reqOk at h
        by_cases hf : ci.flavour = .typeddict
        · simp only [hf, beq_self_eq_true, if_true] at h
          simp only [sameSet, Bool.and_eq_true, List.all_eq_true, List.contains_iff_mem] at h
          rw [all_congr_mem _ req ci.required h.1 h.2, hf]
        · have hne : (ci.flavour == .typeddict) = false := by simpa using hf
          simp only [hne, Bool.false_eq_true, if_false, List.isEmpty_iff] at h
          subst h
          cases hfl : ci.flavour <;> simp_all


/-! ### One level of a tree against one level of the denotation -/

/-- Unmarshal side: if every adequate member tree computes its annotation's denotation at fuel `n`,
    every adequate non-delayed tree does at fuel `n + 1`. -/
theorem stepU (env : Env) (L : Leaves) (D : Nat → Ty → Val → R Val) (K : Ty → Bool) (n : Nat)
    (H : ∀ t r, adequate .u K env t r = true → runUW env L D n r = um env L n t) :
    ∀ t r, adequate .u K env t r = true → r.isDelayed = false →
      ∀ x, runUW env L D (n + 1) r x = um env L (n + 1) t x := by
  intro t r h hd x
  cases r with
  | delayed t' => simp [Routine.isDelayed] at hd
  | unknown tag => simp [adequate] at h
  | leaf s' =>
    cases t <;> simp [adequate] at h
    subst h; simp [runUW, um]
  | none => cases t <;> simp [adequate] at h; simp [runUW, um]
  | noop => cases t <;> simp [adequate] at h; simp [runUW, um]
  | literal ws =>
    cases t <;> simp [adequate] at h
    rw [litEq_eq _ _ h]; simp only [runUW, um, umLiteral]; rfl
  | enumCast c' =>
    cases t <;> simp [adequate] at h
    subst h; simp [runUW, um]
  | union nb rs =>
    cases t <;> simp [adequate] at h
    rename_i ms
    simp only [unionMembers] at h
    simp only [runUW, um]
    rw [adequates_map H rs _ h.2]
  | coll k' e =>
    cases t <;> simp [adequate] at h
    rename_i k et
    obtain ⟨hk, he⟩ := h
    subst hk
    simp only [runUW, um]
    rw [H et e he]
    rfl
  | tuple rs =>
    cases t <;> simp [adequate] at h
    rename_i es
    simp only [runUW, um]
    rw [adequates_map H rs _ h, adequates_length rs _ h]
    rfl
  | dict rk rv =>
    cases t <;> simp [adequate] at h
    rename_i k v
    simp only [runUW, um]
    rw [H k rk h.1, H v rv h.2]
    rfl
  | struct c' fs req =>
    cases t <;> simp [adequate] at h
    rename_i c
    obtain ⟨⟨hc, hs⟩, hf⟩ := h
    subst hc
    simp only [runUW, um]
    have hconv : rconv fs (runUW env L D n) = convOf (fieldsOf env c) (um env L n) :=
      funext (adequateFields_conv H fs _ hf)
    rw [hconv]
    cases load env L x with
    | error e => rfl
    | ok dcd => exact umStructR_eq env c req _ dcd hs

/-- Marshal side. -/
theorem stepM (env : Env) (L : Leaves) (D : Nat → Ty → Val → R Val) (K : Ty → Bool) (n : Nat)
    (H : ∀ t r, adequate .m K env t r = true → runMW env L D n r = mar env L n t) :
    ∀ t r, adequate .m K env t r = true → r.isDelayed = false →
      ∀ x, runMW env L D (n + 1) r x = mar env L (n + 1) t x := by
  intro t r h hd x
  cases r with
  | delayed t' => simp [Routine.isDelayed] at hd
  | unknown tag => simp [adequate] at h
  | leaf s' =>
    cases t <;> simp [adequate] at h
    subst h; simp [runMW, mar]
  | none => cases t <;> simp [adequate] at h; simp only [runMW, mar, marNone]; rfl
  | noop => cases t <;> simp [adequate] at h; simp [runMW, mar]
  | literal ws =>
    cases t <;> simp [adequate] at h
    rw [litEq_eq _ _ h]; simp [runMW, mar]
  | enumCast c' =>
    cases t <;> simp [adequate] at h
    simp only [runMW, mar, marEnum]; rfl
  | union nb rs =>
    cases t <;> simp [adequate] at h
    rename_i ms
    obtain ⟨hnb, hrs⟩ := h
    simp only [unionFlagOk, beq_iff_eq] at hnb
    simp only [unionMembers] at hrs
    simp only [runMW, mar, marUnionR, marUnion]
    rw [adequates_map H rs _ hrs, hnb]
    cases hnl : nullable ms <;> simp only [Bool.false_eq_true, if_false, if_true] <;> rfl
  | coll k' e =>
    cases t <;> simp [adequate] at h
    rename_i k et
    simp only [runMW, mar]
    rw [H et e h.2]
    rfl
  | tuple rs =>
    cases t <;> simp [adequate] at h
    rename_i es
    simp only [runMW, mar]
    rw [adequates_map H rs _ h]
    rfl
  | dict rk rv =>
    cases t <;> simp [adequate] at h
    rename_i k v
    simp only [runMW, mar]
    rw [H k rk h.1, H v rv h.2]
    rfl
  | struct c' fs req =>
    cases t <;> simp [adequate] at h
    rename_i c
    obtain ⟨⟨hc, hs⟩, hf⟩ := h
    subst hc
    simp only [runMW, mar]
    have hconv : rconv fs (runMW env L D n) = convOf (fieldsOf env c) (mar env L n) :=
      funext (adequateFields_conv H fs _ hf)
    rw [hconv]
    cases hcls : env.cls c with
    | none => rfl
    | some ci => simp only [fieldsOf, hcls]; rfl


/-! ### Soundness of the validator -/

/-- **Translation validation, unmarshal side.**  A routine tree the validator accepts for the
    (wrapper-free) annotation `t` computes `unmarshal(t, x)` on every input `x`, at every fuel. -/
theorem adequate_sound_unmarshal (env : Env) (L : Leaves) (t : Ty) (r : Routine)
    (h : adequateU env t r = true) : ∀ n x, runU env L n r x = um env L n t x := by
  have key : ∀ n t r, adequate .u anyTarget env t r = true → runUW env L (um env L) n r = um env L n t := by
    intro n
    induction n with
    | zero => intro t r _; funext x; simp [runUW, um]
    | succ n ih =>
      intro t r h
      funext x
      cases hd : r.isDelayed with
      | false => exact stepU env L (um env L) anyTarget n ih t r h hd x
      | true =>
        cases r <;> simp [Routine.isDelayed] at hd
        rename_i t'
        simp only [adequate, Bool.and_eq_true] at h
        rw [← tyBeq_eq _ _ h.1]
        simp [runUW]
  intro n x
  exact congrFun (key n t r h) x

/-- **Translation validation, marshal side.** -/
theorem adequate_sound_marshal (env : Env) (L : Leaves) (t : Ty) (r : Routine)
    (h : adequateM env t r = true) : ∀ n x, runM env L n r x = mar env L n t x := by
  have key : ∀ n t r, adequate .m anyTarget env t r = true → runMW env L (mar env L) n r = mar env L n t := by
    intro n
    induction n with
    | zero => intro t r _; funext x; simp [runMW, mar]
    | succ n ih =>
      intro t r h
      funext x
      cases hd : r.isDelayed with
      | false => exact stepM env L (mar env L) anyTarget n ih t r h hd x
      | true =>
        cases r <;> simp [Routine.isDelayed] at hd
        rename_i t'
        simp only [adequate, Bool.and_eq_true] at h
        rw [← tyBeq_eq _ _ h.1]
        simp [runMW]
  intro n x
  exact congrFun (key n t r h) x

theorem hasKey_mem {g : RGraph} {t : Ty} (h : g.hasKey t = true) : ∃ r, (t, r) ∈ g := by
  simp only [RGraph.hasKey, List.any_eq_true] at h
  obtain ⟨e, he, hb⟩ := h
  obtain ⟨t', r⟩ := e
  have := tyBeq_eq _ _ hb
  simp only at this
  subst this
  exact ⟨r, he⟩

/-- **Routine graphs, unmarshal side.**  `D n t x` is whatever calling the routine the library
    resolves for the delayed target `t` returns.  If the finite graph `g` (root and every delayed
    target ↦ its tree) passes the validator and `D` runs, for each key, that key's tree, then every
    validated tree — delayed nodes included — computes the denotation of its annotation.  This
    discharges the assumption built into `runU` (a `Delayed` node computes `um` of its target). -/
theorem graph_sound_unmarshal (env : Env) (L : Leaves) (D : Nat → Ty → Val → R Val) (g : RGraph)
    (hg : graphOk .u env g = true)
    (hD : ∀ t r, (t, r) ∈ g → ∀ n x, D n t x = runUW env L D n r x) :
    ∀ n t r, adequate .u g.hasKey env t r = true → ∀ x, runUW env L D n r x = um env L n t x := by
  have key : ∀ n t r, adequate .u g.hasKey env t r = true → runUW env L D n r = um env L n t := by
    intro n
    induction n with
    | zero => intro t r _; funext x; simp [runUW, um]
    | succ n ih =>
      intro t r h
      funext x
      cases hd : r.isDelayed with
      | false => exact stepU env L D g.hasKey n ih t r h hd x
      | true =>
        cases r <;> simp [Routine.isDelayed] at hd
        rename_i t'
        simp only [adequate, Bool.and_eq_true] at h
        obtain ⟨r', hmem⟩ := hasKey_mem h.2
        have hent := (List.all_eq_true.mp hg) (t, r') hmem
        simp only [Bool.and_eq_true, Bool.not_eq_eq_eq_not, Bool.not_true] at hent
        have : runUW env L D (n + 1) (.delayed t') x = D (n + 1) t x := by
          rw [← tyBeq_eq _ _ h.1]; simp [runUW]
        rw [this, hD t r' hmem (n + 1) x]
        exact stepU env L D g.hasKey n ih t r' hent.2 hent.1 x
  intro n t r h x
  exact congrFun (key n t r h) x

/-- Every key of a validated graph resolves to a routine computing its denotation. -/
theorem graph_keys_unmarshal (env : Env) (L : Leaves) (D : Nat → Ty → Val → R Val) (g : RGraph)
    (hg : graphOk .u env g = true)
    (hD : ∀ t r, (t, r) ∈ g → ∀ n x, D n t x = runUW env L D n r x) :
    ∀ t r, (t, r) ∈ g → ∀ n x, D n t x = um env L n t x := by
  intro t r hmem n x
  have hent := (List.all_eq_true.mp hg) (t, r) hmem
  simp only [Bool.and_eq_true] at hent
  rw [hD t r hmem n x]
  exact graph_sound_unmarshal env L D g hg hD n t r hent.2 x

/-- **Routine graphs, marshal side.** -/
theorem graph_sound_marshal (env : Env) (L : Leaves) (D : Nat → Ty → Val → R Val) (g : RGraph)
    (hg : graphOk .m env g = true)
    (hD : ∀ t r, (t, r) ∈ g → ∀ n x, D n t x = runMW env L D n r x) :
    ∀ n t r, adequate .m g.hasKey env t r = true → ∀ x, runMW env L D n r x = mar env L n t x := by
  have key : ∀ n t r, adequate .m g.hasKey env t r = true → runMW env L D n r = mar env L n t := by
    intro n
    induction n with
    | zero => intro t r _; funext x; simp [runMW, mar]
    | succ n ih =>
      intro t r h
      funext x
      cases hd : r.isDelayed with
      | false => exact stepM env L D g.hasKey n ih t r h hd x
      | true =>
        cases r <;> simp [Routine.isDelayed] at hd
        rename_i t'
        simp only [adequate, Bool.and_eq_true] at h
        obtain ⟨r', hmem⟩ := hasKey_mem h.2
        have hent := (List.all_eq_true.mp hg) (t, r') hmem
        simp only [Bool.and_eq_true, Bool.not_eq_eq_eq_not, Bool.not_true] at hent
        have : runMW env L D (n + 1) (.delayed t') x = D (n + 1) t x := by
          rw [← tyBeq_eq _ _ h.1]; simp [runMW]
        rw [this, hD t r' hmem (n + 1) x]
        exact stepM env L D g.hasKey n ih t r' hent.2 hent.1 x
  intro n t r h x
  exact congrFun (key n t r h) x

/-! ### C05 read on the denotation: one lemma per composite constructor -/

/-- Subscripted collection: every element by the routine of the element annotation. -/
theorem denote_compositional_coll (env : Env) (L : Leaves) (n : Nat) (k : Coll) (e : Ty) (x : Val) :
    um env L (n + 1) (.coll k e) x =
      ((load env L x).bind (itervalues env)).bind (fun xs =>
        (mapR (um env L n e) xs).bind (fun ys => .ok (mkColl k ys))) := by
  simp only [um]
  cases (load env L x).bind (itervalues env) with
  | error _ => rfl
  | ok xs => simp only [Except.bind]; cases mapR (um env L n e) xs <;> rfl

/-- Fixed tuple: position `i` by the routine of the `i`-th annotation. -/
theorem denote_compositional_tuple (env : Env) (L : Leaves) (n : Nat) (es : List Ty) (x : Val) :
    um env L (n + 1) (.tuple es) x =
      ((load env L x).bind (itervalues env)).bind (fun xs =>
        (zipR (es.map (um env L n)) xs).bind (fun ys =>
          if ys.length == es.length then .ok (.tuple ys) else .error .value)) := by
  simp only [um]
  cases (load env L x).bind (itervalues env) with
  | error _ => rfl
  | ok xs => simp only [Except.bind]; cases zipR (es.map (um env L n)) xs <;> rfl

/-- Mapping: keys by the key annotation's routine, values by the value annotation's. -/
theorem denote_compositional_dict (env : Env) (L : Leaves) (n : Nat) (k v : Ty) (x : Val) :
    um env L (n + 1) (.dict k v) x =
      ((load env L x).bind (iteritems env)).bind (fun items =>
        (mapR (convPair (um env L n k) (um env L n v)) items).bind (fun kvs => .ok (.dict kvs))) := by
  simp only [um]
  cases (load env L x).bind (iteritems env) with
  | error _ => rfl
  | ok xs => simp only [Except.bind]; cases mapR (convPair (um env L n k) (um env L n v)) xs <;> rfl

/-- Union: the members' own routines, None first. -/
theorem denote_compositional_union (env : Env) (L : Leaves) (n : Nat) (ms : List Ty) (x : Val) :
    um env L (n + 1) (.union ms) x = firstOk ((unionOrder ms).map (um env L n)) x := rfl

/-- Structured class: the comprehension over the class's OWN field table. -/
theorem denote_compositional_struct (env : Env) (L : Leaves) (n : Nat) (c : Nat) (x : Val) :
    um env L (n + 1) (.cls c) x =
      (load env L x).bind (umStruct env c (convOf (fieldsOf env c) (um env L n))) := rfl

/-- … in which field `name : t` of class `c` is converted by `um t` — the routine of the field's own
    annotation, whatever other classes call their fields and whatever they are called themselves. -/
theorem denote_struct_field (env : Env) (L : Leaves) (n : Nat) (c : Nat) (name : Str) (t : Ty)
    (hnd : nodupStr ((fieldsOf env c).map Prod.fst) = true) (hmem : (name, t) ∈ fieldsOf env c) :
    convOf (fieldsOf env c) (um env L n) name = some (um env L n t) :=
  convOf_mem (um env L n) (fieldsOf env c) hnd name t hmem

theorem denote_compositional_coll_marshal (env : Env) (L : Leaves) (n : Nat) (k : Coll) (e : Ty) (x : Val) :
    mar env L (n + 1) (.coll k e) x =
      (itervalues env x).bind (fun xs => (mapR (mar env L n e) xs).bind (fun ys => .ok (.list ys))) := by
  simp only [mar]
  cases itervalues env x with
  | error _ => rfl
  | ok xs => simp only [Except.bind]; cases mapR (mar env L n e) xs <;> rfl

theorem denote_compositional_tuple_marshal (env : Env) (L : Leaves) (n : Nat) (es : List Ty) (x : Val) :
    mar env L (n + 1) (.tuple es) x =
      (itervalues env x).bind (fun xs => (zipR (es.map (mar env L n)) xs).bind (fun ys => .ok (.list ys))) := by
  simp only [mar]
  cases itervalues env x with
  | error _ => rfl
  | ok xs => simp only [Except.bind]; cases zipR (es.map (mar env L n)) xs <;> rfl

theorem denote_compositional_dict_marshal (env : Env) (L : Leaves) (n : Nat) (k v : Ty) (x : Val) :
    mar env L (n + 1) (.dict k v) x =
      (iteritems env x).bind (fun items =>
        (mapR (convPair (mar env L n k) (mar env L n v)) items).bind (fun kvs => .ok (.dict kvs))) := by
  simp only [mar]
  cases iteritems env x with
  | error _ => rfl
  | ok xs => simp only [Except.bind]; cases mapR (convPair (mar env L n k) (mar env L n v)) xs <;> rfl

theorem denote_compositional_union_marshal (env : Env) (L : Leaves) (n : Nat) (ms : List Ty) (x : Val) :
    mar env L (n + 1) (.union ms) x = marUnion ms (mar env L n) x := rfl

theorem denote_compositional_struct_marshal (env : Env) (L : Leaves) (n : Nat) (c : Nat) (ci : ClassInfo)
    (hc : env.cls c = some ci) (x : Val) :
    mar env L (n + 1) (.cls c) x =
      (iteritems env x).bind (fun items =>
        (buildKwargs (convOf ci.fields (mar env L n)) items []).bind (fun kw =>
          .ok (.dict (kw.map fun p => (.str p.1, p.2))))) := by
  simp only [mar, hc]
  cases iteritems env x with
  | error _ => rfl
  | ok xs => simp only [Except.bind]; cases buildKwargs (convOf ci.fields (mar env L n)) xs [] <;> rfl

/-! ### All documented source shapes convert alike -/

theorem load_nontext (env : Env) (L : Leaves) (x : Val) (h : isText env x = false) : load env L x = .ok x := by
  cases x <;> simp [isText] at h <;> simp [load, h]

/-- A structured class reads its source through `iteritems` only: a mapping, an iterable of pairs,
    an instance of another structured class — whatever delivers the same items gives the same result. -/
theorem struct_sources_alike (env : Env) (L : Leaves) (n : Nat) (c : Nat) (x y : Val)
    (hx : isText env x = false) (hy : isText env y = false) (h : iteritems env x = iteritems env y) :
    um env L (n + 1) (.cls c) x = um env L (n + 1) (.cls c) y := by
  simp only [um, load_nontext env L x hx, load_nontext env L y hy, Except.bind, umStruct, h]

/-- JSON (or Python-literal) text converts like the value it decodes to. -/
theorem struct_text_alike (env : Env) (L : Leaves) (n : Nat) (c : Nat) (s : Str) (d : Val)
    (hs : L.sl s = .ok d) (hd : isText env d = false) :
    um env L (n + 1) (.cls c) (.str s) = um env L (n + 1) (.cls c) d := by
  have h1 : load env L (.str s) = .ok d := by simp only [load, hs]
  simp only [um, h1, load_nontext env L d hd]

/-- The same for marshalling: any two sources delivering the same items marshal alike. -/
theorem struct_sources_alike_marshal (env : Env) (L : Leaves) (n : Nat) (c : Nat) (x y : Val)
    (h : iteritems env x = iteritems env y) :
    mar env L (n + 1) (.cls c) x = mar env L (n + 1) (.cls c) y := by
  simp only [mar, h]


/-- Items the struct comprehension looks at: everything but `(name, _)` with `name` not a field. -/
def relevant (conv : Str → Option (Val → R Val)) (it : Item) : Bool :=
  match it with
  | .ok (.str name, _) => (conv name).isSome
  | _ => true

theorem buildKwargs_relevant (conv : Str → Option (Val → R Val)) :
    ∀ (items : List Item) (acc : List (Str × Val)),
      buildKwargs conv (items.filter (relevant conv)) acc = buildKwargs conv items acc := by
  intro items
  induction items with
  | nil => intro acc; rfl
  | cons it rest ih =>
    intro acc
    cases it with
    | error e => simp [List.filter, relevant, buildKwargs]
    | ok kv =>
      obtain ⟨k, v⟩ := kv
      cases k with
      | str name =>
        cases hc : conv name with
        | none => simp [List.filter, relevant, buildKwargs, hc, hashable, ih]
        | some f =>
          simp only [List.filter, relevant, hc, Option.isSome_some, buildKwargs, hashable, Bool.not_true,
            Bool.false_eq_true, if_false]
          cases f v with
          | error e => rfl
          | ok r => exact ih _
      | _ =>
        simp only [List.filter, relevant, buildKwargs]
        split <;> first | rfl | exact ih _

/-- An instance of ANOTHER structured class with overlapping fields (or a mapping with extra keys)
    converts like the mapping of the overlapping fields alone: items under names the target class
    does not declare never reach a routine. -/
theorem struct_sources_alike_overlap (env : Env) (L : Leaves) (n : Nat) (c : Nat) (x y : Val)
    (ix iy : List Item) (hx : isText env x = false) (hy : isText env y = false)
    (hix : iteritems env x = .ok ix) (hiy : iteritems env y = .ok iy)
    (h : ix.filter (relevant (convOf (fieldsOf env c) (um env L n)))
       = iy.filter (relevant (convOf (fieldsOf env c) (um env L n)))) :
    um env L (n + 1) (.cls c) x = um env L (n + 1) (.cls c) y := by
  simp only [um, load_nontext env L x hx, load_nontext env L y hy, Except.bind, umStruct, hix, hiy]
  rw [← buildKwargs_relevant _ ix, ← buildKwargs_relevant _ iy, h]

/-! ### Non-vacuity: concrete trees, accepted and rejected -/

/-- `@dataclass class Node: val: int; nxt: Optional[Node] = None`,
    `class Other(TypedDict): val: str` (the same field name with another type),
    `@dataclass class Foreign: val: int; extra: str`. -/
def exEnv : Env := [
  { flavour := .dataclass, fields := [("val".toList, .scalar .int), ("nxt".toList, .union [.cls 0, .none])],
    required := ["val".toList], defaults := [("nxt".toList, .none)] },
  { flavour := .typeddict, fields := [("val".toList, .scalar .str)], required := ["val".toList] },
  { flavour := .dataclass, fields := [("val".toList, .scalar .int), ("extra".toList, .scalar .str)],
    required := ["val".toList, "extra".toList] }]

/-- The tree `typelib.unmarshaller(Node)` builds: the recursive member is a `Delayed` proxy. -/
def exTree : Routine :=
  .struct 0 [("val".toList, .leaf .int), ("nxt".toList, .union false [.none, .delayed (.cls 0)])] []

example : adequateU exEnv (.cls 0) exTree = true := by decide
example : graphOk .u exEnv [(.cls 0, exTree)] = true := by decide
/-- Hence, on every input: -/
example : ∀ n x, runU exEnv (pyLeaves exEnv) n exTree x = um exEnv (pyLeaves exEnv) n (.cls 0) x :=
  adequate_sound_unmarshal exEnv _ _ _ (by decide)

/-- The marshaller tree of the same class: the union holds the non-None member only, `nullable` set. -/
def exTreeM : Routine :=
  .struct 0 [("val".toList, .leaf .int), ("nxt".toList, .union true [.delayed (.cls 0)])] []

example : adequateM exEnv (.cls 0) exTreeM = true := by decide
example : graphOk .m exEnv [(.cls 0, exTreeM)] = true := by decide
example : ∀ n x, runM exEnv (pyLeaves exEnv) n exTreeM x = mar exEnv (pyLeaves exEnv) n (.cls 0) x :=
  adequate_sound_marshal exEnv _ _ _ (by decide)

/-- The hypotheses of the graph theorems are satisfiable: the denotation itself is a resolver `D`
    that runs, for the key `Node`, the tree of `Node` (by the tree theorem), and the graph passes. -/
example : ∀ n x, um exEnv (pyLeaves exEnv) n (.cls 0) x = um exEnv (pyLeaves exEnv) n (.cls 0) x :=
  fun n x => graph_keys_unmarshal exEnv (pyLeaves exEnv) (um exEnv (pyLeaves exEnv)) [(.cls 0, exTree)] (by decide)
    (by
      intro t r hmem n x
      simp only [List.mem_singleton, Prod.mk.injEq] at hmem
      obtain ⟨ht, hr⟩ := hmem
      subst ht; subst hr
      exact (adequate_sound_unmarshal exEnv (pyLeaves exEnv) (.cls 0) exTree (by decide) n x).symm)
    (.cls 0) exTree (by simp) n x

/-- and evaluated on one (two levels of the recursive class, the member given as text): -/
example : resEq (runU exEnv (pyLeaves exEnv) 8 exTree
      (.dict [(.str "val".toList, .str "1".toList), (.str "nxt".toList, .dict [(.str "val".toList, .int 2)])]))
    (.ok (.inst 0 [("val".toList, .int 1), ("nxt".toList, .inst 0 [("val".toList, .int 2), ("nxt".toList, .none)])])) = true := by
  decide

/-- Name coincidence: `Other.val : str` served by the routine of `Node.val : int` is rejected. -/
example : adequateU exEnv (.cls 1) (.struct 1 [("val".toList, .leaf .int)] ["val".toList]) = false := by decide
example : adequateU exEnv (.cls 1) (.struct 1 [("val".toList, .leaf .str)] ["val".toList]) = true := by decide
/-- A TypedDict routine that forgot its required keys is rejected. -/
example : adequateU exEnv (.cls 1) (.struct 1 [("val".toList, .leaf .str)] []) = false := by decide
/-- `self.context[self.stack[0]]` at every position of `tuple[int, str]` is rejected. -/
example : adequateU [] (.tuple [.scalar .int, .scalar .str]) (.tuple [.leaf .int, .leaf .int]) = false := by decide
/-- Member order: the unmarshaller tries None first, the marshaller holds the non-None members only. -/
example : adequateU [] (.union [.scalar .int, .none, .scalar .str]) (.union false [.none, .leaf .int, .leaf .str]) = true := by decide
example : adequateU [] (.union [.scalar .int, .none, .scalar .str]) (.union false [.leaf .str, .leaf .int, .none]) = false := by decide
example : adequateM [] (.union [.scalar .int, .none, .scalar .str]) (.union true [.leaf .int, .leaf .str]) = true := by decide
example : adequateM [] (.union [.scalar .int, .none, .scalar .str]) (.union false [.leaf .int, .none, .leaf .str]) = false := by decide
/-- A `Delayed` member that resolves to something else than the member annotation
    (`Delayed(ForwardRef('list'))` for a `list[Node]` member) is rejected; the right target is accepted,
    also through an alias (`erase`). -/
example : adequateU exEnv (.coll .list (.cls 0)) (.delayed (.cls 2)) = false := by decide
example : adequateU exEnv (.coll .list (.cls 0)) (.coll .list (.delayed (.wrap .alias (.cls 0)))) = true := by decide
/-- A graph whose delayed target has no validated tree of its own is rejected. -/
example : graphOk .u exEnv [(.coll .list (.cls 0), .coll .list (.delayed (.cls 0)))] = false := by decide
example : graphOk .u exEnv [(.coll .list (.cls 0), .coll .list (.delayed (.cls 0))), (.cls 0, exTree)] = true := by decide

/-- Source shapes: a mapping, a list of pairs and an instance of another class deliver the items of
    `Node` alike (the hypotheses of `struct_sources_alike` / `_overlap` hold on them). -/
example : iteritems exEnv (.dict [(.str "val".toList, .int 1)]) = iteritems exEnv (.list [.tuple [.str "val".toList, .int 1]]) := rfl
example : um exEnv (pyLeaves exEnv) 4 (.cls 0) (.inst 2 [("val".toList, .int 1), ("extra".toList, .str "x".toList)])
    = um exEnv (pyLeaves exEnv) 4 (.cls 0) (.dict [(.str "val".toList, .int 1)]) :=
  struct_sources_alike_overlap exEnv _ 3 0 _ _ _ _ rfl rfl rfl rfl rfl

/-! ### The leaf classes are the ones the live dispatch tables select -/

theorem leaf_classes_unmarshal :
    allScalars.all (fun s => Dispatch.expectedU.lookup (scalarKey s) == some (leafClassU s)) = true := by decide

theorem leaf_classes_marshal :
    allScalars.all (fun s => Dispatch.expectedM.lookup (scalarKey s) == some (leafClassM s)) = true := by decide


/-! ## The routine compiler is adequate (Model/Compile.lean)

  `compile d env t` is the model of `unmarshaller(t)` / `marshaller(t)`.  For EVERY annotation whose
  classes are declared and whose Literal members are primitives (`compilable`, decidable) over an
  environment whose field annotations are (`compilableEnv`), the validator accepts the compiled tree
  for the erased annotation — hence (`compile_sound_*`) the compiled tree computes the denotation on
  every input, and the compiled routine graph of a root with cycles passes `graphOk`. -/

theorem isNone_erase : ∀ t : Ty, (erase t).isNone = t.isNone
  | .wrap _ t => by simp only [erase, Ty.isNone]; exact isNone_erase t
  | .scalar _ => rfl
  | .none => rfl
  | .any => rfl
  | .enum _ => rfl
  | .literal _ => rfl
  | .coll _ _ => by simp [erase, Ty.isNone]
  | .tuple _ => by simp [erase, Ty.isNone]
  | .dict _ _ => by simp [erase, Ty.isNone]
  | .union _ => by simp [erase, Ty.isNone]
  | .cls _ => rfl

theorem eraseList_eq_map : ∀ ts : List Ty, eraseList ts = ts.map erase
  | [] => rfl
  | t :: ts => by simp [eraseList, eraseList_eq_map ts]

theorem nullable_erase (ms : List Ty) : nullable (eraseList ms) = nullable ms := by
  simp only [nullable, eraseList_eq_map, List.any_map]
  congr 1
  funext m
  exact isNone_erase m

theorem filter_erase (ms : List Ty) :
    (eraseList ms).filter (fun m => !m.isNone) = eraseList (ms.filter (fun m => !m.isNone)) := by
  induction ms with
  | nil => rfl
  | cons m ms ih =>
    simp only [eraseList, List.filter, isNone_erase]
    cases m.isNone <;> simp [eraseList, ih]

theorem unionMembers_erase (d : Dir) (ms : List Ty) :
    unionMembers d (eraseList ms) = eraseList (unionMembers d ms) := by
  cases d <;> simp only [unionMembers, unionOrder, nullable_erase, filter_erase]
  · cases nullable ms <;> simp [eraseList, erase]
  · cases nullable ms <;> simp

theorem litEq_refl : ∀ vs : List Val, vs.all isPrim = true → litEq vs vs = true
  | [], _ => rfl
  | v :: vs, h => by
    simp only [List.all_cons, Bool.and_eq_true] at h
    simp [litEq, h.1, isPrim_beq_self h.1, litEq_refl vs h.2]

theorem sameSet_refl (a : List Str) : sameSet a a = true := by
  simp [sameSet, List.all_eq_true]

theorem cls_eraseEnv (env : Env) (c : Nat) : (eraseEnv env).cls c = (env.cls c).map eraseClass := by
  simp [Env.cls, eraseEnv, List.getElem?_map]

theorem fieldsOf_eraseEnv (env : Env) (c : Nat) : fieldsOf (eraseEnv env) c = (fieldsOf env c).map eraseField := by
  simp only [fieldsOf, cls_eraseEnv]
  cases env.cls c <;> simp [eraseClass]

section compile
variable {d : Dir} {K : Ty → Bool} {E : Env}

theorem adequates_keep : ∀ (ts : List Ty) (rs : List Routine), adequates d K E (eraseList ts) rs = true →
    adequates d K E (eraseList (ts.filter (fun m => !m.isNone))) (keepNonNone ts rs) = true
  | [], [], _ => rfl
  | [], _ :: _, h => by simp [eraseList, adequates] at h
  | _ :: _, [], h => by simp [eraseList, adequates] at h
  | t :: ts, r :: rs, h => by
    simp only [eraseList, adequates, Bool.and_eq_true] at h
    cases ht : t.isNone with
    | true => simp only [List.filter, ht, Bool.not_true, keepNonNone, if_true]; exact adequates_keep ts rs h.2
    | false =>
      simp only [List.filter, ht, Bool.not_false, keepNonNone, Bool.false_eq_true, if_false, eraseList, adequates,
        Bool.and_eq_true]
      exact ⟨h.1, adequates_keep ts rs h.2⟩

mutual
  /-- One level: if `F` serves every declared class reference adequately, `compileWith F` serves every
      compilable annotation adequately. -/
  theorem compileWith_adequate {env : Env} {F : Nat → Routine}
      (hF : ∀ c, (env.cls c).isSome = true → adequate d K E (.cls c) (F c) = true) :
      ∀ t : Ty, compilable env t = true → adequate d K E (erase t) (compileWith d F t) = true
    | .scalar s, _ => by simp [erase, compileWith, adequate]
    | .none, _ => by simp [erase, compileWith, adequate]
    | .any, _ => by simp [erase, compileWith, adequate]
    | .enum c, _ => by simp [erase, compileWith, adequate]
    | .literal vs, h => by
      simp only [compilable] at h
      simp [erase, compileWith, adequate, litEq_refl vs h]
    | .coll k e, h => by
      simp only [compilable] at h
      simp [erase, compileWith, adequate, compileWith_adequate hF e h]
    | .tuple es, h => by
      simp only [compilable] at h
      simp [erase, compileWith, adequate, compileList_adequate hF es h]
    | .dict k v, h => by
      simp only [compilable, Bool.and_eq_true] at h
      simp [erase, compileWith, adequate, compileWith_adequate hF k h.1, compileWith_adequate hF v h.2]
    | .union ms, h => by
      simp only [compilable] at h
      have hl := compileList_adequate hF ms h
      simp only [erase, compileWith, adequate, Bool.and_eq_true]
      refine ⟨?_, ?_⟩
      · cases d <;> simp [unionFlagOk, unionFlag, nullable_erase]
      · rw [unionMembers_erase]
        cases d <;> simp only [unionMembers, unionOrder, unionRoutines]
        · cases hn : nullable ms <;> simp only [Bool.false_eq_true, if_false, if_true]
          · exact hl
          · simp only [eraseList, erase, adequates, adequate, Bool.true_and]
            exact adequates_keep ms _ hl
        · cases hn : nullable ms <;> simp only [Bool.false_eq_true, if_false, if_true]
          · exact hl
          · exact adequates_keep ms _ hl
    | .cls c, h => by
      simp only [compilable] at h
      simpa [erase, compileWith] using hF c h
    | .wrap _ t, h => by
      simp only [compilable] at h
      simpa [erase, compileWith] using compileWith_adequate hF t h
  theorem compileList_adequate {env : Env} {F : Nat → Routine}
      (hF : ∀ c, (env.cls c).isSome = true → adequate d K E (.cls c) (F c) = true) :
      ∀ ts : List Ty, compilableList env ts = true → adequates d K E (eraseList ts) (compileList d F ts) = true
    | [], _ => rfl
    | t :: ts, h => by
      simp only [compilableList, Bool.and_eq_true] at h
      simp [eraseList, compileList, adequates, compileWith_adequate hF t h.1, compileList_adequate hF ts h.2]
end

theorem compileFields_adequate {G : Ty → Routine} :
    ∀ fields : List (Str × Ty), (∀ f ∈ fields, adequate d K E (erase f.2) (G f.2) = true) →
      adequateFields d K E (fields.map eraseField) (fields.map (compileField G)) = true
  | [], _ => rfl
  | f :: fs, h => by
    obtain ⟨a, t⟩ := f
    simp only [List.map_cons, eraseField, compileField, adequateFields, Bool.and_eq_true, beq_self_eq_true, true_and]
    exact ⟨h (a, t) (by simp), compileFields_adequate fs (fun f hf => h f (by simp [hf]))⟩

end compile

theorem compilableEnv_fields {env : Env} (hE : compilableEnv env = true) {c : Nat} {ci : ClassInfo}
    (hc : env.cls c = some ci) : ∀ f ∈ ci.fields, compilable env f.2 = true := by
  unfold compilableEnv at hE
  rw [List.all_eq_true] at hE
  have := hE ci (by unfold Env.cls at hc; exact List.mem_of_getElem? hc)
  unfold compilableClass at this
  rw [List.all_eq_true] at this
  exact fun f hf => this f hf

/-- Every declared class reference is served adequately, whatever the path and the remaining fuel. -/
theorem compileCls_adequate (d : Dir) (K : Ty → Bool) (env : Env) (hE : compilableEnv env = true)
    (hK : ∀ c, (env.cls c).isSome = true → K (.cls c) = true) :
    ∀ (n : Nat) (seen : List Nat) (c : Nat), (env.cls c).isSome = true →
      adequate d K (eraseEnv env) (.cls c) (compileCls d env n seen c) = true := by
  have hdel : ∀ c, (env.cls c).isSome = true → adequate d K (eraseEnv env) (.cls c) (.delayed (.cls c)) = true := by
    intro c hc
    simp [adequate, erase, Ty.beq, hK c hc]
  intro n
  induction n with
  | zero => intro seen c hc; simpa [compileCls] using hdel c hc
  | succ n ih =>
    intro seen c hc
    unfold compileCls
    by_cases hs : seen.contains c = true
    · simp only [hs, if_true]; exact hdel c hc
    · simp only [hs, Bool.false_eq_true, if_false]
      cases hci : env.cls c with
      | none => simp [hci] at hc
      | some ci =>
        simp only [adequate, Bool.and_eq_true, beq_self_eq_true, true_and]
        refine ⟨?_, ?_⟩
        · simp only [structOk, cls_eraseEnv, hci, Option.map_some]
          cases d
          · simp only [reqOk, reqFor, eraseClass]
            by_cases hfl : (ci.flavour == Flavour.typeddict) = true <;> simp [hfl, sameSet_refl]
          · rfl
        · rw [fieldsOf_eraseEnv]
          simp only [fieldsOf, hci]
          apply compileFields_adequate
          intro f hf
          exact compileWith_adequate (env := env) (ih (c :: seen)) f.2 (compilableEnv_fields hE hci f hf)

/-- **The compiler is adequate** (both directions, any admissible-target set containing the declared
    classes).  Side conditions, both decidable: `compilableEnv env`, `compilable env t`. -/
theorem compile_adequate (d : Dir) (K : Ty → Bool) (env : Env) (t : Ty)
    (hK : ∀ c, (env.cls c).isSome = true → K (.cls c) = true)
    (hE : compilableEnv env = true) (ht : compilable env t = true) :
    adequate d K (eraseEnv env) (erase t) (compile d env t) = true :=
  compileWith_adequate (env := env) (compileCls_adequate d K env hE hK (env.length + 1) []) t ht

theorem compile_adequate_unmarshal (env : Env) (t : Ty) (hE : compilableEnv env = true)
    (ht : compilable env t = true) : adequateU (eraseEnv env) (erase t) (compileU env t) = true :=
  compile_adequate .u anyTarget env t (fun _ _ => rfl) hE ht

theorem compile_adequate_marshal (env : Env) (t : Ty) (hE : compilableEnv env = true)
    (ht : compilable env t = true) : adequateM (eraseEnv env) (erase t) (compileM env t) = true :=
  compile_adequate .m anyTarget env t (fun _ _ => rfl) hE ht

/-- **The compiled tree computes the denotation** on every input and at every fuel. -/
theorem compile_sound_unmarshal (env : Env) (L : Leaves) (t : Ty) (hE : compilableEnv env = true)
    (ht : compilable env t = true) :
    ∀ n x, runU (eraseEnv env) L n (compileU env t) x = um (eraseEnv env) L n (erase t) x :=
  adequate_sound_unmarshal (eraseEnv env) L (erase t) (compileU env t) (compile_adequate_unmarshal env t hE ht)

theorem compile_sound_marshal (env : Env) (L : Leaves) (t : Ty) (hE : compilableEnv env = true)
    (ht : compilable env t = true) :
    ∀ n x, runM (eraseEnv env) L n (compileM env t) x = mar (eraseEnv env) L n (erase t) x :=
  adequate_sound_marshal (eraseEnv env) L (erase t) (compileM env t) (compile_adequate_marshal env t hE ht)


/-! ### The compiled routine graph of a root (cycles included) passes `graphOk` -/

theorem compileWith_not_delayed {d : Dir} {F : Nat → Routine} (hF : ∀ c, (F c).isDelayed = false) :
    ∀ t : Ty, (compileWith d F t).isDelayed = false
  | .wrap _ t => by simp only [compileWith]; exact compileWith_not_delayed hF t
  | .cls c => by simpa [compileWith] using hF c
  | .scalar _ => rfl
  | .none => rfl
  | .any => rfl
  | .enum _ => rfl
  | .literal _ => rfl
  | .coll _ _ => rfl
  | .tuple _ => rfl
  | .dict _ _ => rfl
  | .union _ => rfl

/-- A root is never a proxy: the path is empty when the root's own class is compiled. -/
theorem compile_not_delayed (d : Dir) (env : Env) (t : Ty) : (compile d env t).isDelayed = false := by
  apply compileWith_not_delayed
  intro c
  simp only [compileCls, List.contains_nil, Bool.false_eq_true, if_false]
  cases env.cls c <;> rfl

theorem hasKey_classKeys (d : Dir) (env : Env) : ∀ n c, c < n → RGraph.hasKey (classKeys d env n) (.cls c) = true := by
  intro n
  induction n with
  | zero => intro c h; omega
  | succ n ih =>
    intro c h
    simp only [classKeys, RGraph.hasKey, List.any_cons, Bool.or_eq_true]
    by_cases hc : c = n
    · left; subst hc; simp [Ty.beq]
    · right; exact ih c (by omega)

theorem mem_classKeys (d : Dir) (env : Env) : ∀ n e, e ∈ classKeys d env n →
    ∃ c, c < n ∧ e = (.cls c, compile d env (.cls c)) := by
  intro n
  induction n with
  | zero => intro e h; simp [classKeys] at h
  | succ n ih =>
    intro e h
    simp only [classKeys, List.mem_cons] at h
    cases h with
    | inl h => exact ⟨n, by omega, h⟩
    | inr h => obtain ⟨c, hc, he⟩ := ih e h; exact ⟨c, by omega, he⟩

theorem cls_isSome_lt {env : Env} {c : Nat} : (env.cls c).isSome = true ↔ c < env.length := by
  simp [Env.cls]

/-- **The compiled routine graph is validated**: the root's tree and the tree of every class as a root of
    its own are non-proxies adequate for their keys, every `Delayed` target being a key. -/
theorem compile_graph_ok (d : Dir) (env : Env) (t : Ty) (hE : compilableEnv env = true)
    (ht : compilable env t = true) : graphOk d (eraseEnv env) (compileGraph d env t) = true := by
  have hK : ∀ c, (env.cls c).isSome = true → RGraph.hasKey (compileGraph d env t) (.cls c) = true := by
    intro c hc
    simp only [compileGraph, RGraph.hasKey, List.any_cons, Bool.or_eq_true]
    right
    exact hasKey_classKeys d env env.length c (cls_isSome_lt.mp hc)
  simp only [graphOk, List.all_eq_true, Bool.and_eq_true, Bool.not_eq_eq_eq_not, Bool.not_true]
  intro e he
  simp only [compileGraph, List.mem_cons] at he
  cases he with
  | inl he =>
    subst he
    exact ⟨compile_not_delayed d env t, compile_adequate d _ env t hK hE ht⟩
  | inr he =>
    obtain ⟨c, hc, rfl⟩ := mem_classKeys d env env.length e he
    refine ⟨compile_not_delayed d env (.cls c), ?_⟩
    have := compile_adequate d _ env (.cls c) hK hE (by simp [compilable, cls_isSome_lt.mpr hc])
    simpa [erase] using this

/-- With `graph_keys_unmarshal`: whatever resolves the proxies by running, for each class, the compiled tree
    of that class computes the denotation of every key — no assumption about `Delayed` nodes is left. -/
theorem compile_graph_sound_unmarshal (env : Env) (L : Leaves) (t : Ty) (D : Nat → Ty → Val → R Val)
    (hE : compilableEnv env = true) (ht : compilable env t = true)
    (hD : ∀ k r, (k, r) ∈ compileGraph .u env t → ∀ n x, D n k x = runUW (eraseEnv env) L D n r x) :
    ∀ n x, runUW (eraseEnv env) L D n (compileU env t) x = um (eraseEnv env) L n (erase t) x := by
  intro n x
  have hg := compile_graph_ok .u env t hE ht
  have hmem : (erase t, compileU env t) ∈ compileGraph .u env t := by simp [compileGraph, compileU]
  rw [← hD _ _ hmem n x]
  exact graph_keys_unmarshal (eraseEnv env) L D _ hg hD _ _ hmem n x

/-! ### No unrecognised node in an accepted tree -/

section noUnknown
variable {d : Dir} {K : Ty → Bool} {E : Env}

mutual
  theorem adequate_noUnknown : ∀ (r : Routine) (t : Ty), adequate d K E t r = true → r.hasUnknown = false
    | .unknown _, _, h => by simp [adequate] at h
    | .leaf _, _, _ => rfl
    | .none, _, _ => rfl
    | .noop, _, _ => rfl
    | .literal _, _, _ => rfl
    | .enumCast _, _, _ => rfl
    | .delayed _, _, _ => rfl
    | .union _ rs, t, h => by
      cases t <;> simp [adequate] at h
      simp only [Routine.hasUnknown]
      exact adequates_noUnknown rs _ h.2
    | .coll _ r, t, h => by
      cases t <;> simp [adequate] at h
      simp only [Routine.hasUnknown]
      exact adequate_noUnknown r _ h.2
    | .tuple rs, t, h => by
      cases t <;> simp [adequate] at h
      simp only [Routine.hasUnknown]
      exact adequates_noUnknown rs _ h
    | .dict a b, t, h => by
      cases t <;> simp [adequate] at h
      simp [Routine.hasUnknown, adequate_noUnknown a _ h.1, adequate_noUnknown b _ h.2]
    | .struct _ fs _, t, h => by
      cases t <;> simp [adequate] at h
      simp only [Routine.hasUnknown]
      exact adequateFields_noUnknown fs _ h.2
  theorem adequates_noUnknown : ∀ (rs : List Routine) (ts : List Ty), adequates d K E ts rs = true →
      Routine.hasUnknownL rs = false
    | [], _, _ => rfl
    | r :: rs, ts, h => by
      cases ts <;> simp [adequates] at h
      simp [Routine.hasUnknownL, adequate_noUnknown r _ h.1, adequates_noUnknown rs _ h.2]
  theorem adequateFields_noUnknown : ∀ (fs : List (Str × Routine)) (ts : List (Str × Ty)),
      adequateFields d K E ts fs = true → Routine.hasUnknownF fs = false
    | [], _, _ => rfl
    | (b, r) :: fs, ts, h => by
      cases ts with
      | nil => simp [adequateFields] at h
      | cons q ts =>
        obtain ⟨a, t⟩ := q
        simp only [adequateFields, Bool.and_eq_true] at h
        simp [Routine.hasUnknownF, adequate_noUnknown r _ h.1.2, adequateFields_noUnknown fs _ h.2]
end

end noUnknown

/-! ### The well-formed annotations of the other theorems are compilable -/

mutual
  theorem wfTy_compilable {S : Scalar → Bool} {env : Env} : ∀ t : Ty, wfTy S env t = true → compilable env t = true
    | .scalar _, _ => rfl
    | .none, _ => rfl
    | .any, _ => rfl
    | .enum _, _ => rfl
    | .literal vs, h => by simpa [wfTy, compilable] using h
    | .coll _ e, h => by
      simp only [wfTy] at h
      simpa [compilable] using wfTy_compilable e h
    | .tuple es, h => by
      simp only [wfTy] at h
      simpa [compilable] using wfTys_compilable es h
    | .dict k v, h => by
      simp only [wfTy, Bool.and_eq_true] at h
      simp [compilable, wfTy_compilable k h.1.2, wfTy_compilable v h.2]
    | .union ms, h => by
      simp only [wfTy, Bool.and_eq_true] at h
      simpa [compilable] using wfTys_compilable ms h.2
    | .cls c, h => by simpa [wfTy, compilable] using h
    | .wrap _ t, h => by
      simp only [wfTy] at h
      simpa [compilable] using wfTy_compilable t h
  theorem wfTys_compilable {S : Scalar → Bool} {env : Env} : ∀ ts : List Ty, wfTys S env ts = true →
      compilableList env ts = true
    | [], _ => rfl
    | t :: ts, h => by
      simp only [wfTys, Bool.and_eq_true] at h
      simp [compilableList, wfTy_compilable t h.1, wfTys_compilable ts h.2]
end

theorem wfEnv_compilableEnv {S : Scalar → Bool} {env : Env} (h : wfEnv S env = true) : compilableEnv env = true := by
  simp only [wfEnv, List.all_eq_true] at h
  simp only [compilableEnv, compilableClass, compilableField, List.all_eq_true]
  intro ci hci f hf
  have := h ci hci
  simp only [wfClass, Bool.and_eq_true, List.all_eq_true] at this
  exact wfTy_compilable f.2 (this.1.2 f hf).2

/-- The statement in the vocabulary of C01 / C13: for every well-formed annotation over a well-formed
    environment, the compiled unmarshaller is accepted by the validator … -/
theorem compile_adequate_unmarshal_wf {S : Scalar → Bool} (env : Env) (t : Ty) (hE : wfEnv S env = true)
    (ht : wfTy S env t = true) : adequateU (eraseEnv env) (erase t) (compileU env t) = true :=
  compile_adequate_unmarshal env t (wfEnv_compilableEnv hE) (wfTy_compilable t ht)

/-- … and so is the compiled marshaller. -/
theorem compile_adequate_marshal_wf {S : Scalar → Bool} (env : Env) (t : Ty) (hE : wfEnv S env = true)
    (ht : wfTy S env t = true) : adequateM (eraseEnv env) (erase t) (compileM env t) = true :=
  compile_adequate_marshal env t (wfEnv_compilableEnv hE) (wfTy_compilable t ht)

/-! ### The compiler picks the routine class the live dispatch tables pick -/

/-- One class of every flavour (dataclass, named tuple, TypedDict, plain, slots). -/
def kindEnv : Env := [
  { flavour := .dataclass, fields := [("a".toList, .scalar .int)] },
  { flavour := .namedtuple, fields := [("a".toList, .scalar .int)] },
  { flavour := .typeddict, fields := [("a".toList, .scalar .int)], required := ["a".toList] },
  { flavour := .plain, fields := [("a".toList, .scalar .int)] },
  { flavour := .slots, fields := [("a".toList, .scalar .int)] }]

/-- One annotation of every kind of U (every scalar, every collection origin, every flavour, wrappers). -/
def kindTys : List Ty :=
  allScalars.map .scalar ++
  [.none, .any, .enum 9, .literal [.int 1], .union [.scalar .int, .scalar .str], .union [.scalar .int, .none],
   .coll .list (.scalar .int), .coll .set (.scalar .int), .coll .frozenset (.scalar .int), .coll .deque (.scalar .int),
   .coll .vartuple (.scalar .int), .tuple [.scalar .int, .scalar .str], .dict (.scalar .str) (.scalar .int),
   .cls 0, .cls 1, .cls 2, .cls 3, .cls 4, .wrap .newtype (.scalar .int), .wrap .alias (.coll .list (.scalar .int)),
   .wrap .final (.cls 0)]

/-- For every kind of annotation, the class of the node the model compiler emits is the class the
    (regenerated, `Dispatch.dispatch_*_ok`) `_HANDLERS` tables select for that kind; a proxy is the
    routine of a forward reference.  A changed handler table breaks this `decide`. -/
theorem compile_dispatch_unmarshal :
    kindTys.all (fun t => Dispatch.expectedU.lookup (kindKey kindEnv t) == some (routineClass .u (compileU kindEnv t))) = true
    ∧ Dispatch.expectedU.lookup "forwardref" = some (routineClass .u (.delayed .any)) := by decide

theorem compile_dispatch_marshal :
    kindTys.all (fun t => Dispatch.expectedM.lookup (kindKey kindEnv t) == some (routineClass .m (compileM kindEnv t))) = true
    ∧ Dispatch.expectedM.lookup "forwardref" = some (routineClass .m (.delayed .any)) := by decide

/-! ### Non-vacuity of the compiler theorems -/

/-- The compiler builds exactly the trees shown above for the recursive `Node`: the proxy sits where the class
    meets itself. -/
example : compileU exEnv (.cls 0) = exTree := rfl
example : compileM exEnv (.cls 0) = exTreeM := rfl
example : compilableEnv exEnv = true ∧ compilable exEnv (.coll .list (.cls 0)) = true := by decide
example : graphOk .u (eraseEnv exEnv) (compileGraph .u exEnv (.coll .list (.wrap .alias (.cls 0)))) = true :=
  compile_graph_ok .u exEnv _ (by decide) (by decide)
example : ∀ n x, runU (eraseEnv exEnv) (pyLeaves exEnv) n (compileU exEnv (.coll .list (.wrap .alias (.cls 0)))) x
    = um (eraseEnv exEnv) (pyLeaves exEnv) n (.coll .list (.cls 0)) x :=
  compile_sound_unmarshal exEnv _ _ (by decide) (by decide)
/-- An undeclared class is outside the side condition, and the compiler says so. -/
example : compilable exEnv (.cls 7) = false ∧ (compileU exEnv (.cls 7)).hasUnknown = true := by decide


end Typelib.C05
