/-
  C05 — Nested members are converted by their own type's rules.

  Specification side.  `um` / `mar` (`Model/Denote.lean`) are compositional by construction; the
  `denote_compositional_*` lemmas read the statement of C05 off them, one per composite constructor:
  the result for a composite is the composite rebuilt from `um` / `mar` of each member at the member's
  own annotation, whatever the field or class is called.  `struct_sources_alike`: every documented
  source shape of a structured class converts alike once it delivers the same items.

  Implementation side.  What has to be shown per program is that the routine TREE typelib actually
  built for an annotation computes exactly that.  `adequate_sound_unmarshal` /
  `adequate_sound_marshal`: the decidable validator `adequate` of `Model/Routine.lean` is sound — a
  tree it accepts for `T` computes `um T` (resp. `mar T`) on EVERY input and at every fuel.  The
  harness extracts the real tree of every generated program and has the compiled validator decide it
  (translation validation; `harness/props/c05.py`).  `graph_sound_*` discharges the one assumption of
  the tree theorems — that a `Delayed` node computes the denotation of its target — from the
  validation of the targets' own trees, by induction on fuel; no coinduction.

  Everything is about wrapper-erased annotations and environments (`erase`, `eraseEnv`); relating `T`
  and `erase T` is C11.
-/
import TypelibModel.Model.Routine
import TypelibModel.Model.Leaf
import TypelibModel.Lemmas.Core
namespace Typelib.C05
open Typelib

/-! ### Equality lemmas for the decidable comparisons of the validator -/

theorem litEq_eq : ∀ (vs ws : List Val), litEq vs ws = true → vs = ws := by
  intro vs
  induction vs with
  | nil => intro ws h; cases ws with
    | nil => rfl
    | cons _ _ => simp [litEq] at h
  | cons v vs ih =>
    intro ws h
    cases ws with
    | nil => simp [litEq] at h
    | cons w ws =>
      simp only [litEq, Bool.and_eq_true] at h
      obtain ⟨⟨hp, hb⟩, hr⟩ := h
      rw [isPrim_beq_eq hp hb, ih ws hr]

mutual
  theorem tyBeq_eq : ∀ (a b : Ty), Ty.beq a b = true → a = b
    | .scalar s, b, h => by cases b <;> simp [Ty.beq] at h; rw [h]
    | .none, b, h => by cases b <;> simp [Ty.beq] at h; rfl
    | .any, b, h => by cases b <;> simp [Ty.beq] at h; rfl
    | .enum c, b, h => by cases b <;> simp [Ty.beq] at h; rw [h]
    | .literal vs, b, h => by cases b <;> simp [Ty.beq] at h; rw [litEq_eq _ _ h]
    | .cls c, b, h => by cases b <;> simp [Ty.beq] at h; rw [h]
    | .coll k e, b, h => by
      cases b <;> simp [Ty.beq] at h
      rename_i l e'
      rw [h.1, tyBeq_eq e e' h.2]
    | .tuple es, b, h => by
      cases b <;> simp [Ty.beq] at h
      rename_i es'
      rw [tyBeqList_eq es es' h]
    | .union es, b, h => by
      cases b <;> simp [Ty.beq] at h
      rename_i es'
      rw [tyBeqList_eq es es' h]
    | .dict k v, b, h => by
      cases b <;> simp [Ty.beq] at h
      rename_i k' v'
      rw [tyBeq_eq k k' h.1, tyBeq_eq v v' h.2]
    | .wrap w t, b, h => by
      cases b <;> simp [Ty.beq] at h
      rename_i w' t'
      rw [h.1, tyBeq_eq t t' h.2]
  theorem tyBeqList_eq : ∀ (as bs : List Ty), Ty.beqList as bs = true → as = bs
    | [], bs, h => by cases bs <;> simp [Ty.beqList] at h; rfl
    | a :: as, bs, h => by
      cases bs <;> simp [Ty.beqList] at h
      rename_i b bs'
      rw [tyBeq_eq a b h.1, tyBeqList_eq as bs' h.2]
end

/-! ### Member lists and field maps -/

section lists
variable {d : Dir} {K : Ty → Bool} {env : Env} {F : Routine → Val → R Val} {G : Ty → Val → R Val}

theorem adequates_map (H : ∀ t r, adequate d K env t r = true → F r = G t) :
    ∀ (rs : List Routine) (ts : List Ty), adequates d K env ts rs = true → rs.map F = ts.map G := by
  intro rs
  induction rs with
  | nil => intro ts h; cases ts with
    | nil => rfl
    | cons _ _ => simp [adequates] at h
  | cons r rs ih =>
    intro ts h
    cases ts with
    | nil => simp [adequates] at h
    | cons t ts =>
      simp only [adequates, Bool.and_eq_true] at h
      simp [H t r h.1, ih ts h.2]

theorem adequates_length :
    ∀ (rs : List Routine) (ts : List Ty), adequates d K env ts rs = true → rs.length = ts.length := by
  intro rs
  induction rs with
  | nil => intro ts h; cases ts with
    | nil => rfl
    | cons _ _ => simp [adequates] at h
  | cons r rs ih =>
    intro ts h
    cases ts with
    | nil => simp [adequates] at h
    | cons t ts =>
      simp only [adequates, Bool.and_eq_true] at h
      simp [ih ts h.2]

/-- The two field lookups agree: the routine's own field map (`fields_by_var[f]`) against the class's
    annotations (`convOf`), name by name — whatever other class uses the same name. -/
theorem adequateFields_conv (H : ∀ t r, adequate d K env t r = true → F r = G t) :
    ∀ (fs : List (Str × Routine)) (fields : List (Str × Ty)), adequateFields d K env fields fs = true →
      ∀ name, rconv fs F name = convOf fields G name := by
  intro fs
  induction fs with
  | nil => intro fields h name; cases fields with
    | nil => rfl
    | cons _ _ => simp [adequateFields] at h
  | cons p fs ih =>
    intro fields h name
    obtain ⟨b, r⟩ := p
    cases fields with
    | nil => simp [adequateFields] at h
    | cons q fields =>
      obtain ⟨a, t⟩ := q
      simp only [adequateFields, Bool.and_eq_true, beq_iff_eq] at h
      obtain ⟨⟨hab, hr⟩, hrest⟩ := h
      subst hab
      have := ih fields hrest name
      unfold rconv convOf at this ⊢
      by_cases hn : (a == name) = true
      · simp [List.find?, hn, H t r hr]
      · have hn' : (a == name) = false := by simpa using hn
        simp only [List.find?, hn']
        exact this

end lists

/-! ### The structured-class routine against `umStruct` -/

theorem all_congr_mem {α : Type} (p : α → Bool) (a b : List α) (hab : ∀ x, x ∈ a → x ∈ b) (hba : ∀ x, x ∈ b → x ∈ a) :
    a.all p = b.all p := by
  apply Bool.eq_iff_iff.mpr
  simp only [List.all_eq_true]
  exact ⟨fun h x hx => h x (hba x hx), fun h x hx => h x (hab x hx)⟩

theorem umStructR_eq (env : Env) (c : Nat) (req : List Str) (conv : Str → Option (Val → R Val)) (x : Val)
    (h : structOk .u env c req = true) : umStructR env c req conv x = umStruct env c conv x := by
  unfold structOk at h
  unfold umStructR umStruct
  cases hc : env.cls c with
  | none => rfl
  | some ci =>
    simp only [hc] at h
    simp only
    cases iteritems env x with
    | error e => rfl
    | ok items =>
      simp only
      cases buildKwargs conv items [] with
      | error e => rfl
      | ok kw =>
        simp only
        unfold reqOk at h
        by_cases hf : ci.flavour = .typeddict
        · simp only [hf, beq_self_eq_true, if_true] at h
          simp only [sameSet, Bool.and_eq_true, List.all_eq_true, List.contains_iff_mem] at h
          rw [all_congr_mem _ req ci.required h.1 h.2, hf]
        · have hne : (ci.flavour == .typeddict) = false := by simpa using hf
          simp only [hne, Bool.false_eq_true, if_false, List.isEmpty_iff] at h
          subst h
          cases hfl : ci.flavour <;> simp_all


/-! ### One level of a tree against one level of the denotation -/

/-- Unmarshal side: if every adequate member tree computes its annotation's denotation at fuel `n`,
    every adequate non-delayed tree does at fuel `n + 1`. -/
theorem stepU (env : Env) (L : Leaves) (D : Nat → Ty → Val → R Val) (K : Ty → Bool) (n : Nat)
    (H : ∀ t r, adequate .u K env t r = true → runUW env L D n r = um env L n t) :
    ∀ t r, adequate .u K env t r = true → r.isDelayed = false →
      ∀ x, runUW env L D (n + 1) r x = um env L (n + 1) t x := by
  intro t r h hd x
  cases r with
  | delayed t' => simp [Routine.isDelayed] at hd
  | unknown tag => simp [adequate] at h
  | leaf s' =>
    cases t <;> simp [adequate] at h
    subst h; simp [runUW, um]
  | none => cases t <;> simp [adequate] at h; simp [runUW, um]
  | noop => cases t <;> simp [adequate] at h; simp [runUW, um]
  | literal ws =>
    cases t <;> simp [adequate] at h
    rw [litEq_eq _ _ h]; simp only [runUW, um, umLiteral]; rfl
  | enumCast c' =>
    cases t <;> simp [adequate] at h
    subst h; simp [runUW, um]
  | union nb rs =>
    cases t <;> simp [adequate] at h
    rename_i ms
    simp only [unionMembers] at h
    simp only [runUW, um]
    rw [adequates_map H rs _ h.2]
  | coll k' e =>
    cases t <;> simp [adequate] at h
    rename_i k et
    obtain ⟨hk, he⟩ := h
    subst hk
    simp only [runUW, um]
    rw [H et e he]
    rfl
  | tuple rs =>
    cases t <;> simp [adequate] at h
    rename_i es
    simp only [runUW, um]
    rw [adequates_map H rs _ h, adequates_length rs _ h]
    rfl
  | dict rk rv =>
    cases t <;> simp [adequate] at h
    rename_i k v
    simp only [runUW, um]
    rw [H k rk h.1, H v rv h.2]
    rfl
  | struct c' fs req =>
    cases t <;> simp [adequate] at h
    rename_i c
    obtain ⟨⟨hc, hs⟩, hf⟩ := h
    subst hc
    simp only [runUW, um]
    have hconv : rconv fs (runUW env L D n) = convOf (fieldsOf env c) (um env L n) :=
      funext (adequateFields_conv H fs _ hf)
    rw [hconv]
    cases load env L x with
    | error e => rfl
    | ok dcd => exact umStructR_eq env c req _ dcd hs

/-- Marshal side. -/
theorem stepM (env : Env) (L : Leaves) (D : Nat → Ty → Val → R Val) (K : Ty → Bool) (n : Nat)
    (H : ∀ t r, adequate .m K env t r = true → runMW env L D n r = mar env L n t) :
    ∀ t r, adequate .m K env t r = true → r.isDelayed = false →
      ∀ x, runMW env L D (n + 1) r x = mar env L (n + 1) t x := by
  intro t r h hd x
  cases r with
  | delayed t' => simp [Routine.isDelayed] at hd
  | unknown tag => simp [adequate] at h
  | leaf s' =>
    cases t <;> simp [adequate] at h
    subst h; simp [runMW, mar]
  | none => cases t <;> simp [adequate] at h; simp only [runMW, mar, marNone]; rfl
  | noop => cases t <;> simp [adequate] at h; simp [runMW, mar]
  | literal ws =>
    cases t <;> simp [adequate] at h
    rw [litEq_eq _ _ h]; simp [runMW, mar]
  | enumCast c' =>
    cases t <;> simp [adequate] at h
    simp only [runMW, mar, marEnum]; rfl
  | union nb rs =>
    cases t <;> simp [adequate] at h
    rename_i ms
    obtain ⟨hnb, hrs⟩ := h
    simp only [unionFlagOk, beq_iff_eq] at hnb
    simp only [unionMembers] at hrs
    simp only [runMW, mar, marUnionR, marUnion]
    rw [adequates_map H rs _ hrs, hnb]
    cases hnl : nullable ms <;> simp only [Bool.false_eq_true, if_false, if_true] <;> rfl
  | coll k' e =>
    cases t <;> simp [adequate] at h
    rename_i k et
    simp only [runMW, mar]
    rw [H et e h.2]
    rfl
  | tuple rs =>
    cases t <;> simp [adequate] at h
    rename_i es
    simp only [runMW, mar]
    rw [adequates_map H rs _ h]
    rfl
  | dict rk rv =>
    cases t <;> simp [adequate] at h
    rename_i k v
    simp only [runMW, mar]
    rw [H k rk h.1, H v rv h.2]
    rfl
  | struct c' fs req =>
    cases t <;> simp [adequate] at h
    rename_i c
    obtain ⟨⟨hc, hs⟩, hf⟩ := h
    subst hc
    simp only [runMW, mar]
    have hconv : rconv fs (runMW env L D n) = convOf (fieldsOf env c) (mar env L n) :=
      funext (adequateFields_conv H fs _ hf)
    rw [hconv]
    cases hcls : env.cls c with
    | none => rfl
    | some ci => simp only [fieldsOf, hcls]; rfl


end Typelib.C05
