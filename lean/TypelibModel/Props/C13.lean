/-
  C13 — Already-valid values pass through unmarshal unchanged.

  `passthrough`: for every class environment, every union-free or Optional-only annotation of U and
  every valid value made of exactly the annotated classes, `unmarshal(T, v) = v`.  The adversarial
  values of the quantifier are *inside* the statement: a `str` value is never re-decoded in a `str`
  position whatever it reads as (JSON, number, date, 'null'), 2-character strings and 2-element
  members in first position are ordinary elements, named tuples are never read as pairs.
  `passthroughG` is the same for any notion of validity whose scalar and literal checks are accepted
  by the leaf routines; instantiated with conformance it gives idempotence (Props/C03.lean).
-/
import TypelibModel.Lemmas.RoundTrip
import TypelibModel.Lemmas.LeafRT
import TypelibModel.Lemmas.EnumRT
import TypelibModel.Props.C01
namespace Typelib.C13
open Typelib

theorem decode_none {v : Val} (h : decode v = .none) : v = .none := by
  cases v <;> simp [decode] at h <;> rfl

theorem mapR_id {α : Type} (f : α → R α) : ∀ xs : List α, (∀ x ∈ xs, f x = .ok x) → mapR f xs = .ok xs := by
  intro xs
  induction xs with
  | nil => intro _; rfl
  | cons x xs ih =>
    intro h
    simp [mapR, h x (by simp), ih (fun y hy => h y (by simp [hy]))]

theorem zipR_id (f : Ty → Val → R Val) (P : Ty → Val → Bool) :
    ∀ (es : List Ty) (xs : List Val), all2 P es xs = true →
      (∀ e x, e ∈ es → P e x = true → f e x = .ok x) →
      zipR (es.map f) xs = .ok xs ∧ xs.length = es.length := by
  intro es
  induction es with
  | nil =>
    intro xs h _
    cases xs with
    | nil => exact ⟨rfl, rfl⟩
    | cons _ _ => simp [all2] at h
  | cons e es ih =>
    intro xs h hid
    cases xs with
    | nil => simp [all2] at h
    | cons x xs =>
      simp only [all2, Bool.and_eq_true] at h
      obtain ⟨h1, h2⟩ := ih xs h.2 (fun e' x' he' => hid e' x' (by simp [he']))
      exact ⟨by simp [zipR, hid e x (by simp) h.1, h1], by simp [h2]⟩

/-- The struct comprehension over already-valid field values returns them. -/
theorem buildKwargs_id (fields : List (Str × Ty)) (G : Ty → Val → R Val) (P : Ty → Val → Bool)
    (hnd : nodupStr (fields.map Prod.fst) = true)
    (hid : ∀ t v, P t v = true → G t v = .ok v) :
    ∀ (fs acc : List (Str × Val)), nodupStr (fs.map Prod.fst) = true →
      (∀ p ∈ fs, p.1 ∉ acc.map Prod.fst) →
      (∀ p ∈ fs, ∃ t, (p.1, t) ∈ fields ∧ P t p.2 = true) →
      buildKwargs (convOf fields G) (fs.map toItem) acc = .ok (acc ++ fs) := by
  intro fs acc h1 h2 h3
  obtain ⟨ms, _, _, hb3⟩ := buildKwargs_rt fields (fun _ v => .ok v) G P hnd
    (fun t v hP => ⟨v, rfl, hid t v hP⟩) fs [] h1 (by intro p _; simp) h3
  -- the images under the identity are the values themselves
  have hms : ∀ (fs acc : List (Str × Val)), nodupStr (fs.map Prod.fst) = true →
      (∀ p ∈ fs, p.1 ∉ acc.map Prod.fst) → (∀ p ∈ fs, ∃ t, (p.1, t) ∈ fields ∧ P t p.2 = true) →
      buildKwargs (convOf fields G) (fs.map toItem) acc = .ok (acc ++ fs) := by
    intro fs
    induction fs with
    | nil => intro acc _ _ _; simp [buildKwargs]
    | cons p ps ih =>
      intro acc hnd' hacc hP
      obtain ⟨name, v⟩ := p
      obtain ⟨hnotin, hndps⟩ := nodupStr_cons (by simpa using hnd')
      obtain ⟨t, htmem, hPt⟩ := hP (name, v) (by simp)
      have hfresh : name ∉ acc.map Prod.fst := hacc (name, v) (by simp)
      have hacc2 : ∀ q ∈ ps, q.1 ∉ (acc ++ [(name, v)]).map Prod.fst := by
        intro q hq
        simp only [List.map_append, List.map_cons, List.map_nil, List.mem_append, List.mem_cons,
          List.not_mem_nil, or_false, not_or]
        refine ⟨hacc q (by simp [hq]), ?_⟩
        intro heq
        apply hnotin
        rw [← heq]
        exact List.mem_map_of_mem (f := Prod.fst) hq
      have := ih (acc ++ [(name, v)]) hndps hacc2 (fun q hq => hP q (by simp [hq]))
      simp only [List.map_cons, toItem, buildKwargs, hashable, Bool.not_true, Bool.false_eq_true, if_false]
      rw [convOf_mem G fields hnd name t htmem]
      simp only [hid t v hPt]
      rw [insertKw_fresh name v acc hfresh]
      simpa [toItem, List.append_assoc] using this
  exact hms fs acc h1 h2 h3

/-- What pass-through assumes of the leaves, for a notion of validity `(leaf, lit)`. -/
structure PassLaws (S : Scalar → Bool) (leaf : Scalar → Val → Bool) (lit : List Val → Val → Bool)
    (env : Env) (L : Leaves) : Prop where
  leafPass : ∀ s v, S s = true → leaf s v = true → L.um s v = .ok v
  litPass : ∀ vs v, vs.all isPrim = true → lit vs v = true → pyMem? env v vs = some true

theorem load_coll (env : Env) (L : Leaves) {k : Coll} {v : Val} {xs : List Val} (h : collOf k v = some xs) :
    load env L v = .ok v := by
  cases k <;> cases v <;> simp [collOf] at h <;> rfl

theorem passthroughG (S : Scalar → Bool) (leaf : Scalar → Val → Bool) (lit : List Val → Val → Bool)
    (env : Env) (L : Leaves) (hE : wfEnv S env = true) (hL : PassLaws S leaf lit env L) :
    ∀ n t v, wfTy S env t = true → hasTypeG leaf lit env n t v = true → um env L n t v = .ok v := by
  intro n
  induction n with
  | zero => intro t v _ h; simp [hasTypeG] at h
  | succ n ih =>
    intro t v hwf hty
    cases t with
    | scalar s =>
      simp only [hasTypeG] at hty
      simp only [wfTy] at hwf
      simp [um, hL.leafPass s v hwf hty]
    | none =>
      simp only [hasTypeG] at hty
      have hv := eq_none_of_beq hty
      subst hv
      simp [um, umNone, decode]
    | any => simp [wfTy] at hwf
    | enum c =>
      simp only [hasTypeG] at hty
      cases v with
      | member c' i =>
        simp only [Bool.and_eq_true, beq_iff_eq] at hty
        obtain ⟨hc, hsome⟩ := hty
        subst hc
        simp [um, umEnum_member env L c' i]
      | _ => simp at hty
    | literal vs =>
      simp only [hasTypeG] at hty
      simp only [wfTy] at hwf
      simp [um, hL.litPass vs v hwf hty]
    | coll k e =>
      simp only [hasTypeG] at hty
      simp only [wfTy] at hwf
      cases hco : collOf k v with
      | none => simp [hco] at hty
      | some xs =>
        simp only [hco, List.all_eq_true] at hty
        obtain ⟨hv, hit⟩ := collOf_some hco
        have := mapR_id (um env L n e) xs (fun x hx => ih e x hwf (hty x hx))
        have hl := load_coll env L hco
        have hi := hit env
        simp only [um, hl, Except.bind, hi, this]
        rw [hv]
    | tuple es =>
      simp only [hasTypeG] at hty
      simp only [wfTy] at hwf
      cases v with
      | tuple xs =>
        simp only at hty
        obtain ⟨h1, h2⟩ := zipR_id (um env L n) (hasTypeG leaf lit env n) es xs hty
          (fun e x he hx => ih e x (wfTys_mem hwf e he) hx)
        simp [um, load, Except.bind, itervalues, h1, h2]
      | _ => simp at hty
    | dict k e =>
      simp only [hasTypeG] at hty
      simp only [wfTy, Bool.and_eq_true] at hwf
      obtain ⟨⟨_, hwk⟩, hwe⟩ := hwf
      cases v with
      | dict kvs =>
        simp only [List.all_eq_true, Bool.and_eq_true] at hty
        have := mapR_id (fun kv => convPair (um env L n k) (um env L n e) (.ok kv)) kvs
          (fun kv hkv => by
            obtain ⟨⟨a, b⟩, c⟩ := hty kv hkv
            obtain ⟨ka, kb⟩ := kv
            simp [convPair, ih k ka hwk a, ih e kb hwe b, c])
        simp only [um, load, Except.bind, iteritems]
        rw [mapR_map, this]
      | _ => simp at hty
    | union ms =>
      simp only [hasTypeG, List.any_eq_true] at hty
      simp only [wfTy, Bool.and_eq_true, optionalOnly, beq_iff_eq] at hwf
      obtain ⟨⟨hnull, hone⟩, hwms⟩ := hwf
      obtain ⟨m0, hm0, hty0⟩ := hty
      obtain ⟨t', ht'⟩ : ∃ t', ms.filter (fun m => !m.isNone) = [t'] := by
        cases hf : ms.filter (fun m => !m.isNone) with
        | nil => simp [hf] at hone
        | cons a as =>
          cases as with
          | nil => exact ⟨a, rfl⟩
          | cons _ _ => simp [hf] at hone
      obtain ⟨n', hn'⟩ : ∃ n', n = n' + 1 := by
        cases n with
        | zero => simp [hasTypeG] at hty0
        | succ n' => exact ⟨n', rfl⟩
      have humNone : ∀ x, um env L n .none x = umNone x := by
        intro x; subst hn'; simp [um]
      by_cases hvn : v = .none
      · subst hvn
        simp [um, unionOrder, hnull, firstOk, humNone, umNone, decode]
      · have hm0' : m0 = t' := by
          have hnn : m0.isNone = false := by
            cases hb : m0.isNone with
            | false => rfl
            | true => exact absurd (isNone_hasTypeG _ _ env n m0 v hb hty0) hvn
          have : m0 ∈ ms.filter (fun m => !m.isNone) := List.mem_filter.mpr ⟨hm0, by simp [hnn]⟩
          rw [ht'] at this
          simpa using this
        subst hm0'
        have h2 := ih m0 v (wfTys_mem hwms m0 hm0) hty0
        have hrej : umNone v = .error .value := by
          unfold umNone
          cases hd : decode v <;> first | rfl | exact absurd (decode_none hd) hvn
        simp [um, unionOrder, hnull, ht', firstOk, humNone, hrej, Err.isRejection, h2]
    | cls c =>
      simp only [hasTypeG] at hty
      cases hc : env.cls c with
      | none => simp [hc] at hty
      | some ci =>
        have hwc := wfEnv_cls hE hc
        simp only [wfClass, Bool.and_eq_true, List.all_eq_true, Bool.not_eq_eq_eq_not, Bool.not_true] at hwc
        obtain ⟨⟨hnd, hfld⟩, hreq⟩ := hwc
        have hidF : ∀ t v, (wfTy S env t && hasTypeG leaf lit env n t v) = true → um env L n t v = .ok v := by
          intro t v h
          simp only [Bool.and_eq_true] at h
          exact ih t v h.1 h.2
        simp only [hc] at hty
        by_cases htd : ci.flavour = .typeddict
        · rw [htd] at hty
          cases v with
          | dict kvs =>
            simp only at hty
            cases hkn : keyNames kvs with
            | none => simp [hkn] at hty
            | some names =>
              simp only [hkn, Bool.and_eq_true, List.all_eq_true] at hty
              obtain ⟨⟨hndn, hreqn⟩, hflds⟩ := hty
              obtain ⟨fs, hfs1, hfs2⟩ := keyNames_some kvs names hkn
              have hPfs : ∀ p ∈ fs, ∃ t, (p.1, t) ∈ ci.fields ∧ (wfTy S env t && hasTypeG leaf lit env n t p.2) = true := by
                intro p hp
                have hkv : (Val.str p.1, p.2) ∈ kvs := by rw [hfs1]; exact List.mem_map_of_mem (f := fun q : Str × Val => (Val.str q.1, q.2)) hp
                have := hflds _ hkv
                simp only at this
                cases hfind : ci.fields.find? (fun f => f.1 == p.1) with
                | none => simp [hfind] at this
                | some f =>
                  simp only [hfind] at this
                  have hmemf := List.mem_of_find?_eq_some hfind
                  have hname : f.1 = p.1 := by
                    have := List.find?_some hfind
                    exact eq_of_beq this
                  refine ⟨f.2, by rw [← hname]; exact hmemf, ?_⟩
                  have hw := (hfld f hmemf).2
                  simp only [hw, Bool.true_and]
                  exact this
              have hb := buildKwargs_id ci.fields (um env L n) (fun t v => wfTy S env t && hasTypeG leaf lit env n t v)
                hnd hidF fs [] (by rw [hfs2]; exact hndn) (by intro p _; simp) hPfs
              simp only [um, load, Except.bind, umStruct, hc, iteritems, fieldsOf]
              have : kvs.map Except.ok = fs.map toItem := by rw [hfs1]; simp [toItem, List.map_map, Function.comp_def]
              rw [this, hb, htd]
              simp only [List.nil_append]
              have hreq' : ci.required.all (fun r => (lookupKw r fs).isSome) = true := by
                rw [List.all_eq_true]
                intro r hr
                have hrn : r ∈ names := by
                  have := hreqn r hr
                  simpa using this
                rw [← hfs2] at hrn
                obtain ⟨p, hp, hpr⟩ := List.mem_map.mp hrn
                have := lookupKw_mem fs (by rw [hfs2]; exact hndn) p.1 p.2 hp
                rw [← hpr, this]; rfl
              simp [hreq', hfs1]
          | _ => simp at hty
        · cases v with
          | inst c' fs =>
            have hty' : (c' == c && all2 (fun (f : Str × Ty) (g : Str × Val) => f.1 == g.1 && hasTypeG leaf lit env n f.2 g.2) ci.fields fs) = true := by
              cases hfl : ci.flavour <;> simp_all
            simp only [Bool.and_eq_true, beq_iff_eq] at hty'
            obtain ⟨hcc, hall⟩ := hty'
            subst hcc
            obtain ⟨hnames, hnameeq, hP⟩ := all2_names ci.fields fs hall
            have hPfs : ∀ p ∈ fs, ∃ t, (p.1, t) ∈ ci.fields ∧ (wfTy S env t && hasTypeG leaf lit env n t p.2) = true := by
              intro p hp
              obtain ⟨t, ht, hPt⟩ := hP p hp
              exact ⟨t, ht, by simp [(hfld (p.1, t) ht).2, hPt]⟩
            have hndfs : nodupStr (fs.map Prod.fst) = true := by rw [hnames]; exact hnd
            have hpub : ∀ p ∈ fs, isPrivate p.1 = false := by
              intro p hp
              obtain ⟨t, ht, _⟩ := hP p hp
              exact (hfld (p.1, t) ht).1
            have hb := buildKwargs_id ci.fields (um env L n) (fun t v => wfTy S env t && hasTypeG leaf lit env n t v)
              hnd hidF fs [] hndfs (by intro p _; simp) hPfs
            have hitems : iteritems env (.inst c' fs) = .ok (fs.map toItem) := by
              simp only [iteritems, flavourOf, hc, Option.map_some]
              cases hfl : ci.flavour <;> simp_all [toItem, filter_public_id fs hpub]
            have hcons := construct_ok ci c' fs hnameeq hndfs
            simp only [um, load, Except.bind, umStruct, hc, hitems, fieldsOf, hb, List.nil_append]
            cases hfl : ci.flavour <;> simp_all
          | _ =>
            cases hfl : ci.flavour <;> simp_all
    | wrap w t' =>
      simp only [hasTypeG] at hty
      simp only [wfTy] at hwf
      simp [um, ih t' v hwf hty]

/-- A member of any enum — str mix-in or not — is returned unchanged, whatever the leaves (since
    9645d73 the member of a `str` enum is recognised before `serdes.load` reads it as text). -/
theorem enumPass (env : Env) (L : Leaves) :
    ∀ c i, (memberValue env c i).isSome = true → umEnum env L c (.member c i) = .ok (.member c i) :=
  fun c i _ => umEnum_member env L c i

/-- Kept for its users: the special case without str mix-in. -/
theorem enumPass_of_noStrMixin (env : Env) (L : Leaves) (_h : ∀ c, isStrMixin env c = false) :
    ∀ c i, (memberValue env c i).isSome = true → umEnum env L c (.member c i) = .ok (.member c i) :=
  enumPass env L

/-- The pass-through laws of the executable leaves on U₀: no condition on the environment. -/
theorem passLaws_core (env : Env) (today : Int) :
    PassLaws S0 hasScalar (fun vs v => Val.exactMem v vs) env (pyLeaves env today) :=
  { leafPass := pyLeaves_pass env today
    litPass := fun vs v hp hm => (C01.literal_pyMem env vs v hp hm).1 }

/-- **C13 on the unconditional core** (int, bool, float, str and EVERY enum, str mix-in or not, under
    every composite constructor, class flavour, wrapper and recursion): the only hypotheses are the
    decidable `wfEnv`, `wfTy` and validity of the value. -/
theorem passthrough_core (env : Env) (today : Int) (hE : wfEnv S0 env = true)
    (n : Nat) (t : Ty) (v : Val)
    (hwf : wfTy S0 env t = true) (hty : hasType env n t v = true) :
    um env (pyLeaves env today) n t v = .ok v :=
  passthroughG S0 hasScalar (fun vs v => Val.exactMem v vs) env (pyLeaves env today) hE
    (passLaws_core env today) n t v hwf hty

/-- Non-vacuity: the C01 example value passes through unchanged. -/
example : um C01.exEnv (pyLeaves C01.exEnv) 12 C01.exTy C01.exVal = .ok C01.exVal :=
  passthrough_core C01.exEnv 0 (by decide) 12 _ _ (by decide) (by decide)

/-! ### Enums: str mix-ins -/

/-- `class SE(str, Enum): A = "a"; ONE = "1"; N = "null"` and a dataclass with a field of it. -/
def exStrEnumEnv : Env :=
  [{ flavour := .plain, mixin := .str,
     members := [("A".toList, .str "a".toList), ("ONE".toList, .str "1".toList), ("N".toList, .str "null".toList)] },
   { flavour := .dataclass, fields := [("tag".toList, .enum 0), ("alt".toList, .union [.none, .enum 0])],
     required := ["tag".toList, "alt".toList] }]

/-- Members of a str-mixin enum whose values read as a number / as null pass through. -/
example : um exStrEnumEnv (pyLeaves exStrEnumEnv) 4 (.cls 1)
      (.inst 1 [("tag".toList, .member 0 1), ("alt".toList, .member 0 2)])
    = .ok (.inst 1 [("tag".toList, .member 0 1), ("alt".toList, .member 0 2)]) :=
  passthrough_core exStrEnumEnv 0 (by decide) 4 _ _ (by decide) (by decide)
/-- The int- and str-valued enums of the C01 example. -/
example : um C01.exEnumEnv (pyLeaves C01.exEnumEnv) 5 (.cls 2) C01.exEnumVal = .ok C01.exEnumVal :=
  passthrough_core C01.exEnumEnv 0 (by decide) 5 _ _ (by decide) (by decide)

/-- `class SE(str, Enum): A = '"b"'; B = 'b'`: the text of `SE.A` is the JSON spelling of the value
    of `SE.B`.  Before 9645d73 `unmarshal(SE, SE.A)` was `SE.B` (the member was `load`ed as text and
    looked up by value); the round trip through the *value* is still shadowed (C01 `enumWF`, known
    finding `enumValueShadow`), the member itself now passes through. -/
def shadowStrEnv : Env :=
  [{ flavour := .plain, mixin := .str,
     members := [("A".toList, .str "\"b\"".toList), ("B".toList, .str "b".toList)] }]

example : enumWF shadowStrEnv = false := by decide
example : um shadowStrEnv (pyLeaves shadowStrEnv) 2 (.enum 0) (.member 0 0) = .ok (.member 0 0) :=
  passthrough_core shadowStrEnv 0 (by decide) 2 _ _ (by decide) (by decide)
example : um shadowStrEnv (pyLeaves shadowStrEnv) 2 (.enum 0) (.member 0 0) = .ok (.member 0 0) := by rfl
/-- … while its wire text still finds the other member first (that is C01's business). -/
example : um shadowStrEnv (pyLeaves shadowStrEnv) 2 (.enum 0) (.str "\"b\"".toList) = .ok (.member 0 1) := by rfl

/-- Adversarial values of the quantifier, evaluated by the model: a `str` that reads as JSON in a
    `str` field, a named tuple whose first field is a 2-character string. -/
example : um [] (pyLeaves []) 3 (.coll .list (.scalar .str)) (.list [.str "null".toList, .str "[1]".toList, .str "ab".toList])
    = .ok (.list [.str "null".toList, .str "[1]".toList, .str "ab".toList]) := by rfl

end Typelib.C13
