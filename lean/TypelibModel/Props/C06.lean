/-
  C06 — Marshalled output is plain JSON-compatible data.

  `marshal_plain`: for every class environment whose field annotations are fully annotated and free
  of bytes-like members (`plainEnv`), every such annotation `t` (`plainTy`: no `Any`, no `bytes`, dict
  keys of key type, Literal members primitive; unions of arbitrary members, class references and
  recursion allowed) and **every value `v` whatsoever** — no validity hypothesis: whatever a
  marshaller accepts comes out plain, which is what makes the first-acceptor union routine safe —
      marshal(v, t=T) = m  ⟹  m consists solely of None / bool / int / float / str / list / dict
                               with primitive (or float) dict keys            (`jsonPlain m`).
  The leaves enter through `LeafPlain` (a scalar marshaller other than the bytes pass-through returns
  a primitive or a float), proved for the executable leaves in `pyLeaves_plain`.

  `marshal_literal_rejects`: a value that is not a member (class-aware) of a Literal is rejected with
  ValueError; `marshal_none_strict`: so is anything but None under `None`.
-/
import TypelibModel.Lemmas.Mono
import TypelibModel.Lemmas.LeafRT
import TypelibModel.Props.C01
import TypelibModel.Props.C08
namespace Typelib.C06
open Typelib

/-! ### Side conditions (decidable) -/

mutual
  /-- Fully annotated, no bytes-like member, dict keys of key type, Literal members primitive. -/
  def plainTy : Ty → Bool
    | .scalar s => s != .bytes
    | .none => true
    | .any => false
    | .enum _ => true
    | .literal vs => vs.all isPrim
    | .coll _ e => plainTy e
    | .tuple es => plainTys es
    | .dict k e => isKeyTy k && plainTy k && plainTy e
    | .union ms => plainTys ms
    | .cls _ => true
    | .wrap _ t => plainTy t
  termination_by structural t => t
  def plainTys : List Ty → Bool
    | [] => true
    | t :: ts => plainTy t && plainTys ts
  termination_by structural ts => ts
end

/-- Field annotations plain, enum member values primitive. -/
def plainClass (ci : ClassInfo) : Bool :=
  ci.fields.all (fun f => plainTy f.2) && ci.members.all (fun m => isPrim m.2)

def plainEnv (env : Env) : Bool := env.all plainClass

/-- What may stand in key position of the output: None / bool / int / str, or a float. -/
def keyPlain (m : Val) : Prop := isPrim m = true ∨ ∃ r, m = .float r

/-- The leaf hypothesis: every scalar marshaller except the bytes pass-through returns a primitive
    or a float. -/
def LeafPlain (L : Leaves) : Prop :=
  ∀ s v m, s ≠ .bytes → L.mar s v = .ok m → keyPlain m

/-! ### Helpers -/

theorem plainTys_mem : ∀ {ts : List Ty}, plainTys ts = true → ∀ t ∈ ts, plainTy t = true := by
  intro ts
  induction ts with
  | nil => intro _ t ht; cases ht
  | cons a as ih =>
    intro h t ht
    simp only [plainTys, Bool.and_eq_true] at h
    cases ht with
    | head => exact h.1
    | tail _ hm => exact ih h.2 t hm

theorem plainEnv_cls {env : Env} (h : plainEnv env = true) {c : Nat} {ci : ClassInfo}
    (hc : env.cls c = some ci) : plainClass ci = true := by
  unfold plainEnv at h
  rw [List.all_eq_true] at h
  apply h
  unfold Env.cls at hc
  exact List.mem_of_getElem? hc

theorem keyPlain_json {m : Val} (h : keyPlain m) : jsonPlain m = true := by
  cases h with
  | inl hp => cases m <;> simp [isPrim] at hp <;> simp [jsonPlain]
  | inr hf => obtain ⟨r, rfl⟩ := hf; simp [jsonPlain]

theorem isPrim_keyPlain {m : Val} (h : isPrim m = true) : keyPlain m := Or.inl h

theorem jsonPlainList_of : ∀ ys : List Val, (∀ y ∈ ys, jsonPlain y = true) → jsonPlainList ys = true := by
  intro ys
  induction ys with
  | nil => intro _; simp [jsonPlainList]
  | cons y ys ih =>
    intro h
    simp only [jsonPlainList, Bool.and_eq_true]
    exact ⟨h y (by simp), ih (fun z hz => h z (by simp [hz]))⟩

theorem jsonPlainPairs_of : ∀ kvs : List (Val × Val),
    (∀ kv ∈ kvs, keyPlain kv.1 ∧ jsonPlain kv.2 = true) → jsonPlainPairs kvs = true := by
  intro kvs
  induction kvs with
  | nil => intro _; simp [jsonPlainPairs]
  | cons kv kvs ih =>
    intro h
    obtain ⟨k, v⟩ := kv
    obtain ⟨hk, hv⟩ := h (k, v) (by simp)
    simp only [jsonPlainPairs, Bool.and_eq_true]
    refine ⟨⟨?_, hv⟩, ih (fun z hz => h z (by simp [hz]))⟩
    cases hk with
    | inl hp => simp [hp]
    | inr hf => obtain ⟨r, rfl⟩ := hf; simp

/-! ### The theorem -/

theorem marshal_plain_aux (env : Env) (L : Leaves) (hE : plainEnv env = true) (hL : LeafPlain L) :
    ∀ (n : Nat) (t : Ty) (v m : Val), plainTy t = true → mar env L n t v = .ok m →
      jsonPlain m = true ∧ (isKeyTy t = true → keyPlain m) := by
  intro n
  induction n with
  | zero => intro t v m _ h; simp [mar] at h
  | succ n ih =>
    intro t v m hp h
    cases t with
    | scalar s =>
      simp only [mar] at h
      simp only [plainTy, bne_iff_ne, ne_eq] at hp
      have := hL s v m hp h
      exact ⟨keyPlain_json this, fun _ => this⟩
    | none =>
      simp only [mar] at h
      cases v <;> simp at h
      subst h
      exact ⟨rfl, by simp [isKeyTy]⟩
    | any => simp [plainTy] at hp
    | enum c =>
      simp only [mar] at h
      cases v with
      | member c' i =>
        simp only at h
        cases hmv : memberValue env c' i with
        | none => simp [hmv] at h
        | some x =>
          simp only [hmv, Except.ok.injEq] at h
          subst h
          unfold memberValue at hmv
          cases hc : env.cls c' with
          | none => simp [hc] at hmv
          | some ci =>
            simp only [hc, Option.map_eq_some_iff] at hmv
            obtain ⟨p, hp1, hp2⟩ := hmv
            have hpc := plainEnv_cls hE hc
            simp only [plainClass, Bool.and_eq_true, List.all_eq_true] at hpc
            have := hpc.2 p (List.mem_of_getElem? hp1)
            rw [hp2] at this
            exact ⟨keyPlain_json (Or.inl this), fun _ => Or.inl this⟩
      | _ => simp at h
    | literal vs =>
      simp only [mar] at h
      simp only [plainTy] at hp
      split at h
      · rename_i hmem
        cases h
        have := (C01.literal_pyMem env vs v hp hmem).2
        exact ⟨keyPlain_json (Or.inl this), fun _ => Or.inl this⟩
      · cases h
    | coll k e =>
      simp only [mar] at h
      simp only [plainTy] at hp
      split at h
      · cases h
      · rename_i xs _
        split at h
        · cases h
        · rename_i ys hys
          cases h
          refine ⟨?_, by simp [isKeyTy]⟩
          simp only [jsonPlain]
          apply jsonPlainList_of
          exact mapR_ok_forall (mar env L n e) (fun y => jsonPlain y = true) xs ys hys
            (fun x _ y hy => (ih e x y hp hy).1)
    | tuple es =>
      simp only [mar] at h
      simp only [plainTy] at hp
      split at h
      · cases h
      · rename_i xs _
        split at h
        · cases h
        · rename_i ys hys
          cases h
          refine ⟨?_, by simp [isKeyTy]⟩
          simp only [jsonPlain]
          apply jsonPlainList_of
          exact zipR_ok_forall (mar env L n) (fun y => jsonPlain y = true) es xs ys hys
            (fun e he x _ y hy => (ih e x y (plainTys_mem hp e he) hy).1)
    | dict k e =>
      simp only [mar] at h
      simp only [plainTy, Bool.and_eq_true] at hp
      obtain ⟨⟨hkey, hpk⟩, hpe⟩ := hp
      split at h
      · cases h
      · rename_i items _
        split at h
        · cases h
        · rename_i kvs hkvs
          cases h
          refine ⟨?_, by simp [isKeyTy]⟩
          simp only [jsonPlain]
          apply jsonPlainPairs_of
          exact mapR_ok_forall (convPair (mar env L n k) (mar env L n e))
            (fun kv => keyPlain kv.1 ∧ jsonPlain kv.2 = true) items kvs hkvs
            (fun it _ kv hkv => by
              obtain ⟨a, b, _, ha, hb, _⟩ := convPair_ok hkv
              exact ⟨(ih k a kv.1 hpk ha).2 hkey, (ih e b kv.2 hpe hb).1⟩)
    | union ms =>
      simp only [mar] at h
      simp only [plainTy] at hp
      refine ⟨?_, by simp [isKeyTy]⟩
      have hfirst : ∀ ms' : List Ty, (∀ m' ∈ ms', m' ∈ ms) →
          firstOk (ms'.map (mar env L n)) v = .ok m → jsonPlain m = true := by
        intro ms' hsub hf
        obtain ⟨pre, f, post, hfs, hfv, _⟩ := (C08.firstOk_ok_iff _ v m).mp hf
        have hfm : f ∈ ms'.map (mar env L n) := by rw [hfs]; simp
        obtain ⟨m', hm', rfl⟩ := List.mem_map.mp hfm
        exact (ih m' v m (plainTys_mem hp m' (hsub m' hm')) hfv).1
      unfold marUnion at h
      split at h
      · split at h
        · cases h; rfl
        · exact hfirst _ (fun m' hm' => (List.mem_filter.mp hm').1) h
      · exact hfirst ms (fun _ hm' => hm') h
    | cls c =>
      simp only [mar] at h
      refine ⟨?_, by simp [isKeyTy]⟩
      split at h
      · cases h
      · rename_i ci hc
        split at h
        · cases h
        · rename_i items _
          split at h
          · cases h
          · rename_i kw hkw
            cases h
            have hpc := plainEnv_cls hE hc
            simp only [plainClass, Bool.and_eq_true, List.all_eq_true] at hpc
            have hinv := buildKwargs_inv (convOf ci.fields (mar env L n)) (fun _ r => jsonPlain r = true)
              items [] kw hkw
              (fun name x _ g r hg hr => by
                unfold convOf at hg
                split at hg
                · rename_i p hfind
                  cases hg
                  exact (ih p.2 x r (hpc.1 p (List.mem_of_find?_eq_some hfind)) hr).1
                · cases hg)
              (by intro p hp'; cases hp')
            simp only [jsonPlain]
            apply jsonPlainPairs_of
            intro kv hkv
            obtain ⟨p, hp1, rfl⟩ := List.mem_map.mp hkv
            exact ⟨Or.inl rfl, hinv p hp1⟩
    | wrap w t' =>
      simp only [mar] at h
      simp only [plainTy] at hp
      obtain ⟨h1, h2⟩ := ih t' v m hp h
      exact ⟨h1, by simpa [isKeyTy] using h2⟩

/-- **C06, closure of the output.**  Whatever value a marshaller of a fully annotated, bytes-free
    type accepts, its output is plain JSON-compatible data. -/
theorem marshal_plain (env : Env) (L : Leaves) (hE : plainEnv env = true) (hL : LeafPlain L)
    (n : Nat) (t : Ty) (v m : Val) (ht : plainTy t = true) (h : mar env L n t v = .ok m) :
    jsonPlain m = true :=
  (marshal_plain_aux env L hE hL n t v m ht h).1

/-- In key position (scalars, enums, literals and wrappers of them) the output is a primitive or a
    float — the "primitive dict keys" clause. -/
theorem marshal_plain_key (env : Env) (L : Leaves) (hE : plainEnv env = true) (hL : LeafPlain L)
    (n : Nat) (t : Ty) (v m : Val) (ht : plainTy t = true) (hk : isKeyTy t = true)
    (h : mar env L n t v = .ok m) : isPrim m = true ∨ ∃ r, m = .float r :=
  (marshal_plain_aux env L hE hL n t v m ht h).2 hk

/-- **C06, Literal.** A value that is not a (class-aware) member is rejected with ValueError. -/
theorem marshal_literal_rejects (env : Env) (L : Leaves) (n : Nat) (vs : List Val) (v : Val)
    (h : Val.exactMem v vs = false) : mar env L (n + 1) (.literal vs) v = .error .value := by
  simp [mar, h]

/-- … and a member is emitted unchanged. -/
theorem marshal_literal_accepts (env : Env) (L : Leaves) (n : Nat) (vs : List Val) (v : Val)
    (h : Val.exactMem v vs = true) : mar env L (n + 1) (.literal vs) v = .ok v := by
  simp [mar, h]

theorem marshal_none_strict (env : Env) (L : Leaves) (n : Nat) (v : Val) (h : v ≠ .none) :
    mar env L (n + 1) .none v = .error .value := by
  cases v <;> first | rfl | exact absurd rfl h

/-! ### The executable leaves satisfy `LeafPlain` -/

theorem castInt_shape {env : Env} {v m : Val} (h : castInt env v = .ok m) : ∃ i, m = .int i := by
  unfold castInt at h
  split at h <;> first | (cases h; exact ⟨_, rfl⟩) | cases h | skip
  all_goals (split at h <;> first | (cases h; exact ⟨_, rfl⟩) | cases h | skip)
  all_goals (split at h <;> first | (cases h; exact ⟨_, rfl⟩) | cases h | skip)
  all_goals (split at h <;> first | (cases h; exact ⟨_, rfl⟩) | cases h | skip)

theorem castFloat_shape {v m : Val} (h : castFloat v = .ok m) : ∃ r, m = .float r := by
  unfold castFloat at h
  split at h <;> first | (cases h; exact ⟨_, rfl⟩) | cases h | skip
  all_goals (split at h <;> first | (cases h; exact ⟨_, rfl⟩) | cases h | skip)

theorem pyStr_shape {env : Env} {v m : Val} (h : pyStr env v = .ok m) : ∃ s, m = .str s := by
  unfold pyStr at h
  split at h <;> first | (cases h; exact ⟨_, rfl⟩) | cases h | skip
  all_goals (split at h <;> cases h)

theorem marStr_shape {env : Env} {v m : Val} (h : marStr env v = .ok m) : ∃ s, m = .str s := by
  unfold marStr at h
  split at h
  · cases h
  · cases h
  · exact pyStr_shape h

theorem pyLeaves_plain (env : Env) (today : Int) : LeafPlain (pyLeaves env today) := by
  intro s v m hs h
  simp only [pyLeaves] at h
  cases s with
  | bytes => exact absurd rfl hs
  | int =>
    simp only [pyMar, marInt] at h
    have : castInt env v = .ok m := by
      split at h
      · cases h
      · exact h
    obtain ⟨i, rfl⟩ := castInt_shape this
    exact Or.inl rfl
  | bool =>
    simp only [pyMar, marBool] at h
    split at h
    · cases h; exact Or.inl rfl
    · cases h
  | float =>
    simp only [pyMar, marFloat] at h
    have : castFloat v = .ok m := by
      split at h
      · cases h
      · exact h
    obtain ⟨r, rfl⟩ := castFloat_shape this
    exact Or.inr ⟨r, rfl⟩
  | str =>
    simp only [pyMar] at h
    obtain ⟨r, rfl⟩ := marStr_shape h
    exact Or.inl rfl
  | decimal | fraction | uuid | path =>
    simp only [pyMar, marToStr] at h
    obtain ⟨r, rfl⟩ := marStr_shape h
    exact Or.inl rfl
  | pattern =>
    simp only [pyMar] at h
    unfold marPattern at h
    split at h <;> cases h
    exact Or.inl rfl
  | date | datetime | time | timedelta =>
    simp only [pyMar] at h
    unfold marTemporal at h
    split at h <;> cases h
    all_goals exact Or.inl rfl

/-- **C06 for the executable leaves**: no leaf hypothesis left. -/
theorem marshal_plain_py (env : Env) (today : Int) (hE : plainEnv env = true)
    (n : Nat) (t : Ty) (v m : Val) (ht : plainTy t = true)
    (h : mar env (pyLeaves env today) n t v = .ok m) : jsonPlain m = true :=
  marshal_plain env _ hE (pyLeaves_plain env today) n t v m ht h

/-! ### Non-vacuity -/

/-- The recursive dataclass of C01 inside `dict[str, tuple[Node, ...]]`: the hypotheses hold … -/
example : plainEnv C01.exEnv = true := by decide
example : plainTy C01.exTy = true := by decide

/-- … the marshaller accepts the example value, and the theorem gives plainness of what it returns. -/
example : ∃ m, mar C01.exEnv (pyLeaves C01.exEnv) 12 C01.exTy C01.exVal = .ok m ∧ jsonPlain m = true := by
  obtain ⟨m, hm, _⟩ := C01.roundtrip_core C01.exEnv 0 (by decide) (enumWF_of_noEnums _ C01.exEnv_noEnums) 12 C01.exTy C01.exVal
    (by decide) (by decide)
  exact ⟨m, hm, marshal_plain_py C01.exEnv 0 (by decide) 12 _ _ m (by decide) hm⟩

/-- An *invalid* value accepted by a first-acceptor union: `"5"` under `Union[int, str]` is emitted as
    the int 5 (known finding of C01) — still plain, as the theorem promises for every accepted value. -/
example : mar [] (pyLeaves []) 3 (.union [.scalar .int, .scalar .str]) (.str ['5']) = .ok (.int 5) := by rfl

/-- The side conditions are necessary: `Any` passes a tuple through, `bytes` passes bytes through. -/
example : mar [] (pyLeaves []) 2 .any (.tuple []) = .ok (.tuple []) ∧ jsonPlain (.tuple []) = false := ⟨rfl, rfl⟩
example : mar [] (pyLeaves []) 2 (.scalar .bytes) (.text .bytes ['a']) = .ok (.text .bytes ['a'])
    ∧ jsonPlain (.text .bytes ['a']) = false := ⟨rfl, rfl⟩

/-- Literal: `True` is not a member of `Literal[1]` for the marshaller (class-aware), `1` is. -/
example : mar [] (pyLeaves []) 1 (.literal [.int 1]) (.bool true) = .error .value :=
  marshal_literal_rejects [] _ 0 [.int 1] (.bool true) (by decide)
example : mar [] (pyLeaves []) 1 (.literal [.int 1]) (.int 1) = .ok (.int 1) :=
  marshal_literal_accepts [] _ 0 [.int 1] (.int 1) (by decide)

/-- `class E(IntEnum): A = 1` as dict key and set element: members are emitted as their values, the
    set as a list. -/
def exEnumEnv : Env := [{ flavour := .plain, members := [(['A'], .int 1)], mixin := .int }]
example : plainEnv exEnumEnv = true := by decide
example : mar exEnumEnv (pyLeaves exEnumEnv) 3 (.dict (.enum 0) (.coll .set (.enum 0)))
    (.dict [(.member 0 0, .set [.member 0 0])]) = .ok (.dict [(.int 1, .list [.int 1])]) := by rfl

end Typelib.C06
