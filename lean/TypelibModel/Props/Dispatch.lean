/-
  Dispatch adequacy (DESIGN.md §4.1): the routine class the live `_HANDLERS` tables select for every
  kind of annotation is the one whose semantics `Model/Denote.lean` + `Model/Leaf.lean` give to that
  kind (DateTime before Date, Decimal/Fraction before the generic Number routine, FixedTuple before
  the subscripted-iterable routine, TypedDict/NamedTuple before the mapping/iterable rows, the three
  union spellings on the union routine, NewType/alias through `unwrap`, …).  `Gen/Dispatch.lean` is
  regenerated from the working tree on every run; the two `decide`s below are re-checked against it.
  A reordering of `_HANDLERS` that changes no selection keeps the proof; one that does fails here
  and the differing row names the annotation kind to search at.
-/
import TypelibModel.Gen.Dispatch
namespace Typelib.Dispatch

/-- The pairing the model's semantics presupposes (unmarshal side). -/
def expectedU : List (String × String) := [
  ("int", "NumberUnmarshaller"),
  ("bool", "NumberUnmarshaller"),
  ("float", "NumberUnmarshaller"),
  ("str", "StringUnmarshaller"),
  ("bytes", "BytesUnmarshaller"),
  ("bytearray", "BytesUnmarshaller"),
  ("decimal", "NumberUnmarshaller"),
  ("fraction", "NumberUnmarshaller"),
  ("uuid", "UUIDUnmarshaller"),
  ("purepath", "PathUnmarshaller"),
  ("path", "PathUnmarshaller"),
  ("pattern", "PatternUnmarshaller"),
  ("date", "DateUnmarshaller"),
  ("datetime", "DateTimeUnmarshaller"),
  ("time", "TimeUnmarshaller"),
  ("timedelta", "TimeDeltaUnmarshaller"),
  ("none", "NoneTypeUnmarshaller"),
  ("nonetype", "NoneTypeUnmarshaller"),
  ("any", "NoOpUnmarshaller"),
  ("object", "NoOpUnmarshaller"),
  ("ellipsis", "NoOpUnmarshaller"),
  ("callable", "NoOpUnmarshaller"),
  ("enum", "CastUnmarshaller"),
  ("intenum", "CastUnmarshaller"),
  ("strenum", "CastUnmarshaller"),
  ("literal", "LiteralUnmarshaller"),
  ("union", "UnionUnmarshaller"),
  ("optional", "UnionUnmarshaller"),
  ("pipe", "UnionUnmarshaller"),
  ("list", "SubscriptedIterableUnmarshaller"),
  ("typingList", "SubscriptedIterableUnmarshaller"),
  ("sequence", "SubscriptedIterableUnmarshaller"),
  ("iterable", "SubscriptedIterableUnmarshaller"),
  ("set", "SubscriptedIterableUnmarshaller"),
  ("abcSet", "SubscriptedIterableUnmarshaller"),
  ("frozenset", "SubscriptedIterableUnmarshaller"),
  ("deque", "SubscriptedIterableUnmarshaller"),
  ("vartuple", "SubscriptedIterableUnmarshaller"),
  ("fixedtuple", "FixedTupleUnmarshaller"),
  ("dict", "SubscriptedMappingUnmarshaller"),
  ("mapping", "SubscriptedMappingUnmarshaller"),
  ("bareList", "CastUnmarshaller"),
  ("bareDict", "CastUnmarshaller"),
  ("bareTuple", "CastUnmarshaller"),
  ("bareSet", "CastUnmarshaller"),
  ("iterator", "SubscriptedIteratorUnmarshaller"),
  ("dataclass", "StructuredTypeUnmarshaller"),
  ("namedtuple", "StructuredTypeUnmarshaller"),
  ("typeddict", "StructuredTypeUnmarshaller"),
  ("plainclass", "StructuredTypeUnmarshaller"),
  ("forwardref", "DelayedUnmarshaller"),
  ("newtypeInt", "NumberUnmarshaller"),
  ("aliasInt", "NumberUnmarshaller"),
  ("typevarFree", "NoOpUnmarshaller"),
  ("typevarBound", "NumberUnmarshaller"),
  ("typevarConstrained", "UnionUnmarshaller"),
  ("typeOf", "NoOpUnmarshaller"),
  ("abcCallable", "NoOpUnmarshaller"),
  ("genericBare", "StructuredTypeUnmarshaller"),
  ("genericInt", "StructuredTypeUnmarshaller"),
  ("noHints", "StructuredTypeUnmarshaller"),
  ("typingListBare", "CastUnmarshaller"),
  ("typingDictBare", "CastUnmarshaller"),
  ("frozensetBare", "CastUnmarshaller")]

/-- The pairing the model's semantics presupposes (marshal side). -/
def expectedM : List (String × String) := [
  ("int", "CastMarshaller"),
  ("bool", "CastMarshaller"),
  ("float", "CastMarshaller"),
  ("str", "ToStringMarshaller"),
  ("bytes", "NoOpMarshaller"),
  ("bytearray", "NoOpMarshaller"),
  ("decimal", "ToStringMarshaller"),
  ("fraction", "ToStringMarshaller"),
  ("uuid", "ToStringMarshaller"),
  ("purepath", "ToStringMarshaller"),
  ("path", "ToStringMarshaller"),
  ("pattern", "PatternMarshaller"),
  ("date", "ToISOTimeMarshaller"),
  ("datetime", "ToISOTimeMarshaller"),
  ("time", "ToISOTimeMarshaller"),
  ("timedelta", "ToISOTimeMarshaller"),
  ("none", "NoneTypeMarshaller"),
  ("nonetype", "NoneTypeMarshaller"),
  ("any", "NoOpMarshaller"),
  ("object", "NoOpMarshaller"),
  ("ellipsis", "NoOpMarshaller"),
  ("callable", "NoOpMarshaller"),
  ("enum", "EnumMarshaller"),
  ("intenum", "EnumMarshaller"),
  ("strenum", "EnumMarshaller"),
  ("literal", "LiteralMarshaller"),
  ("union", "UnionMarshaller"),
  ("optional", "UnionMarshaller"),
  ("pipe", "UnionMarshaller"),
  ("list", "SubscriptedIterableMarshaller"),
  ("typingList", "SubscriptedIterableMarshaller"),
  ("sequence", "SubscriptedIterableMarshaller"),
  ("iterable", "SubscriptedIterableMarshaller"),
  ("set", "SubscriptedIterableMarshaller"),
  ("abcSet", "SubscriptedIterableMarshaller"),
  ("frozenset", "SubscriptedIterableMarshaller"),
  ("deque", "SubscriptedIterableMarshaller"),
  ("vartuple", "SubscriptedIterableMarshaller"),
  ("fixedtuple", "FixedTupleMarshaller"),
  ("dict", "SubscriptedMappingMarshaller"),
  ("mapping", "SubscriptedMappingMarshaller"),
  ("bareList", "IterableMarshaller"),
  ("bareDict", "MappingMarshaller"),
  ("bareTuple", "IterableMarshaller"),
  ("bareSet", "IterableMarshaller"),
  ("iterator", "SubscriptedIterableMarshaller"),
  ("dataclass", "StructuredTypeMarshaller"),
  ("namedtuple", "StructuredTypeMarshaller"),
  ("typeddict", "StructuredTypeMarshaller"),
  ("plainclass", "StructuredTypeMarshaller"),
  ("forwardref", "DelayedMarshaller"),
  ("newtypeInt", "CastMarshaller"),
  ("aliasInt", "CastMarshaller"),
  ("typevarFree", "NoOpMarshaller"),
  ("typevarBound", "CastMarshaller"),
  ("typevarConstrained", "UnionMarshaller"),
  ("typeOf", "NoOpMarshaller"),
  ("abcCallable", "NoOpMarshaller"),
  ("genericBare", "StructuredTypeMarshaller"),
  ("genericInt", "StructuredTypeMarshaller"),
  ("noHints", "StructuredTypeMarshaller"),
  ("typingListBare", "IterableMarshaller"),
  ("typingDictBare", "MappingMarshaller"),
  ("frozensetBare", "IterableMarshaller")]

/-- First row on which two tables differ (for the replay file). -/
def firstDiff : List (String × String) → List (String × String) → Option (String × String × String)
  | (a, x) :: r, (_, y) :: s => if x == y then firstDiff r s else some (a, x, y)
  | _, _ => none

/-- No catalogue annotation — the U⁺ kinds of C15 included (TypeVars, type[X], Callable, bare and
    parameterised user generics, classes without hints, unparameterised containers) — makes a dispatch
    predicate raise: every kind selects a routine class. -/
def knownRoutines : List String :=
  ["NoOpUnmarshaller", "NoneTypeUnmarshaller", "BytesUnmarshaller", "StringUnmarshaller", "NumberUnmarshaller",
   "DateUnmarshaller", "DateTimeUnmarshaller", "TimeUnmarshaller", "TimeDeltaUnmarshaller", "UUIDUnmarshaller",
   "PatternUnmarshaller", "PathUnmarshaller", "CastUnmarshaller", "LiteralUnmarshaller", "UnionUnmarshaller",
   "SubscriptedMappingUnmarshaller", "SubscriptedIterableUnmarshaller", "SubscriptedIteratorUnmarshaller",
   "FixedTupleUnmarshaller", "StructuredTypeUnmarshaller", "DelayedUnmarshaller",
   "NoOpMarshaller", "NoneTypeMarshaller", "CastMarshaller", "ToStringMarshaller", "EnumMarshaller", "PatternMarshaller",
   "ToISOTimeMarshaller", "LiteralMarshaller", "UnionMarshaller", "MappingMarshaller", "IterableMarshaller",
   "SubscriptedMappingMarshaller", "SubscriptedIterableMarshaller", "FixedTupleMarshaller", "StructuredTypeMarshaller",
   "DelayedMarshaller"]

/-- Every row names a routine class (the extractor writes `raises:<Error>` when a dispatch predicate
    raises on the annotation, `unknown` when it cannot name the class). -/
def total (rows : List (String × String)) : Bool := rows.all fun r => knownRoutines.contains r.2

theorem dispatch_total : total Typelib.Gen.dispatchU = true ∧ total Typelib.Gen.dispatchM = true := by decide

theorem dispatch_unmarshal_ok : Typelib.Gen.dispatchU = expectedU := by decide
theorem dispatch_marshal_ok : Typelib.Gen.dispatchM = expectedM := by decide

end Typelib.Dispatch
