/-
  Field selection of `serdes._make_fields_iterator` / `get_items_iter` (Model/Fields.lean): which
  attribute names of a structured object are the keys of its items.  Built and audited with C18.

  Proved for every class description (no bound on the number of names), under the decidable
  well-formedness `wf` (distinct dict keys; resolved hints = the MRO's annotations, base classes first):
    (a) `select_spec` — `selectNames` equals the separately written `specNames`: the public instance
        fields of the object in declaration order (inherited ones included; ClassVar / InitVar / KW_ONLY
        excluded), the names of its storage when it declares nothing.  Outside `storageBeyondSlots`
        (slots behind the nearest `__slots__`, `vars()` beside slots) — `select_spec_full_fails` proves
        the unrestricted statement false at a witness, which is the behaviour of the pinned tree
        that C18 excludes from its quantifier;
    (b) `select_ignores_slots_when_declared` — with a declared public field the result is `declared c`
        whatever `hasSlots` / `slots` / `baseSlots` are             (`slots_first_needed`: C02f);
    (c) `select_excludes_pseudo`, `select_excludes_classvar` — pseudo-fields are never selected
                                                                   (`raw_dataclass_fields_needed`: C05f);
    (d) `select_includes_inherited` — own annotations ⊆ resolved hints, and every public instance hint
        contributed by a base class is selected                    (`own_annotations_only_needed`: C13f);
    (e) `select_per_instance`, `select_all_pointwise` — in the `vars()` branch every instance gets its
        own public vars, in any order of calls                     (`memo_first_instance_needed`: C12f);
    (f) `select_public`, `select_sublist`, `select_nodup` — private names never, source order kept;
    (g) `select_attrs_exist` — for an instance whose constructor stored what the class declares,
        `getattr` finds every selected name.
-/
import TypelibModel.Model.Fields
namespace Typelib.FieldSel
open Typelib Typelib.Fields

/-! ### list lemmas -/

theorem mem_publicOf {xs : List Str} {x : Str} : x ∈ publicOf xs ↔ x ∈ xs ∧ isPublic x = true := by
  simp [publicOf]

theorem publicOf_append (xs ys : List Str) : publicOf (xs ++ ys) = publicOf xs ++ publicOf ys := by
  simp [publicOf]

theorem publicOf_sublist (xs : List Str) : (publicOf xs).Sublist xs := List.filter_sublist

theorem nodupB_iff (xs : List Str) : nodupB xs = true ↔ xs.Nodup := by
  induction xs with
  | nil => simp [nodupB]
  | cons x xs ih => simp [nodupB, ih, List.nodup_cons]

theorem wf_iff (c : ClassShape) : wf c = true ↔
    (keysOf c.dcFields).Nodup ∧ (keysOf c.hints).Nodup ∧ c.baseAnnotations.Nodup ∧ c.ownAnnotations.Nodup
      ∧ (c.hints = [] ∨ keysOf c.hints = mergeDecl c.baseAnnotations c.ownAnnotations) := by
  simp [wf, nodupB_iff, and_assoc]

/-- a dict has one value per key -/
theorem value_unique {α : Type} : ∀ (l : List (Str × α)), (keysOf l).Nodup →
    ∀ (x : Str) (a b : α), (x, a) ∈ l → (x, b) ∈ l → a = b := by
  intro l
  induction l with
  | nil => intro _ x a b h; cases h
  | cons p t ih =>
    intro hn x a b ha hb
    obtain ⟨k, v⟩ := p
    simp only [keysOf, List.map_cons, List.nodup_cons] at hn
    have key : ∀ w : α, (x, w) ∈ t → x ∈ List.map Prod.fst t := fun w hw => List.mem_map.mpr ⟨(x, w), hw, rfl⟩
    rcases List.mem_cons.mp ha with ha' | ha' <;> rcases List.mem_cons.mp hb with hb' | hb'
    · cases ha'; cases hb'; rfl
    · cases ha'; exact absurd (key b hb') hn.1
    · cases hb'; exact absurd (key a ha') hn.1
    · exact ih hn.2 x a b ha' hb'

theorem mem_of_lookup {α : Type} : ∀ (l : List (Str × α)) (x : Str) (v : α), l.lookup x = some v → (x, v) ∈ l := by
  intro l
  induction l with
  | nil => intro x v h; simp at h
  | cons p t ih =>
    intro x v h
    obtain ⟨k, w⟩ := p
    by_cases hk : x = k
    · subst hk
      simp at h
      subst h
      exact List.mem_cons_self
    · have hb : (x == k) = false := by simpa using hk
      simp only [List.lookup_cons, hb] at h
      exact List.mem_cons_of_mem _ (ih x v h)

theorem lookup_of_mem {α : Type} : ∀ (l : List (Str × α)), (keysOf l).Nodup →
    ∀ (x : Str) (v : α), (x, v) ∈ l → l.lookup x = some v := by
  intro l
  induction l with
  | nil => intro _ x v h; cases h
  | cons p t ih =>
    intro hn x v h
    obtain ⟨k, w⟩ := p
    simp only [keysOf, List.map_cons, List.nodup_cons] at hn
    rcases List.mem_cons.mp h with h | h
    · cases h; simp
    · have hx : x ∈ List.map Prod.fst t := List.mem_map.mpr ⟨(x, v), h, rfl⟩
      have hk : x ≠ k := by rintro rfl; exact hn.1 hx
      have hb : (x == k) = false := by simpa using hk
      simp only [List.lookup_cons, hb]
      exact ih hn.2 x v h

/-! ### the specification, written a second time -/

/-- a name is an instance field according to the resolved hints -/
def instField (c : ClassShape) (x : Str) : Bool := isPublic x && kindOf c x == some .inst

/-- a real, public dataclass field -/
def pubField (p : Str × FieldKind) : Option Str :=
  match p.2 with
  | .field => if isPublic p.1 then some p.1 else none
  | .classVar => none
  | .initVar => none

/-- The declared public instance fields in declaration order: for a dataclass the real fields of its
    field table; otherwise the names annotated along the MRO — base classes first, then what the class
    adds — that the resolved hints call an instance attribute (none when the hints do not resolve). -/
def specDeclared (c : ClassShape) : List Str :=
  if c.isDataclass then c.dcFields.filterMap pubField
  else if c.hints.isEmpty then []
  else (c.baseAnnotations ++ c.ownAnnotations.filter (notIn c.baseAnnotations)).filter (instField c)

/-- everything stored on the instance: slots of the MRO base-most first, then the instance dict -/
def storage (c : ClassShape) (instVars : List Str) : List Str :=
  c.baseSlots ++ (if c.hasSlots then c.slots else []) ++ instVars

/-- **Specification.** The public declared instance fields; the public stored names of an object whose
    class declares none. -/
def specNames (c : ClassShape) (instVars : List Str) : List Str :=
  match specDeclared c with
  | [] => publicOf (storage c instVars)
  | d :: ds => d :: ds

theorem dcPublic_eq_filterMap (l : List (Str × FieldKind)) :
    publicOf ((l.filter isFieldEntry).map Prod.fst) = l.filterMap pubField := by
  induction l with
  | nil => rfl
  | cons p t ih =>
    obtain ⟨k, v⟩ := p
    cases v <;> by_cases hp : isPublic k = true <;>
      simp_all [publicOf, isFieldEntry, pubField, List.filterMap_cons]

theorem hint_filter_eq (l : List (Str × HintKind)) (h : (keysOf l).Nodup) :
    (keysOf l).filter (fun x => isPublic x && l.lookup x == some HintKind.inst)
      = ((l.filter notKwOnly).filter isInstHint).map Prod.fst := by
  induction l with
  | nil => rfl
  | cons p t ih =>
    obtain ⟨k, v⟩ := p
    simp only [keysOf, List.map_cons, List.nodup_cons] at h
    have hcongr : (List.map Prod.fst t).filter (fun x => isPublic x && ((k, v) :: t).lookup x == some HintKind.inst)
        = (List.map Prod.fst t).filter (fun x => isPublic x && t.lookup x == some HintKind.inst) := by
      apply List.filter_congr
      intro x hx
      have hk : x ≠ k := by rintro rfl; exact h.1 hx
      have hb : (x == k) = false := by simpa using hk
      simp [List.lookup_cons, hb]
    have ih' := ih h.2
    simp only [keysOf] at ih'
    simp only [keysOf, List.map_cons, List.filter_cons, hcongr, ih']
    cases v <;> by_cases hp : isPublic k = true <;> simp_all [notKwOnly, isInstHint]

theorem declared_eq_spec (c : ClassShape) (hwf : wf c = true) : declared c = specDeclared c := by
  obtain ⟨_, hh, _, _, hm⟩ := (wf_iff c).mp hwf
  unfold declared specDeclared
  by_cases hd : c.isDataclass = true
  · simp only [hd, if_true, dcPublic, dcNames]
    exact dcPublic_eq_filterMap _
  · simp only [hd]
    rcases hm with hm | hm
    · simp [hm, hintPublic, typeHints]
    · by_cases he : c.hints = []
      · simp [he, hintPublic, typeHints]
      · have hne : c.hints.isEmpty = false := by simpa using he
        have := hint_filter_eq c.hints hh
        simp only [hne, hintPublic, typeHints]
        rw [← this, hm]
        rfl

/-- How the result is read off the three sources. -/
theorem select_by_cases (c : ClassShape) (iv : List Str) :
    selectNames c iv =
      if declared c ≠ [] then declared c
      else if c.hasSlots = true ∧ publicOf c.slots ≠ [] then publicOf c.slots
      else publicOf iv := by
  unfold selectNames makeIterator attribs
  by_cases hd : declared c = []
  · by_cases hs : c.hasSlots = true
    · by_cases hp : publicOf c.slots = []
      · simp [hd, hs, hp, Iter.run]
      · have : (publicOf c.slots).isEmpty = false := by simpa using hp
        simp [hd, hs, hp, this, Iter.run]
    · simp [hd, hs, Iter.run]
  · have : (declared c).isEmpty = false := by simpa using hd
    simp [hd, this, Iter.run]

/-- **(a) select_spec.**  For every well-formed description and every instance without storage the
    function does not read, the selected names are the specified ones. -/
theorem select_spec (c : ClassShape) (iv : List Str) (hwf : wf c = true)
    (hex : storageBeyondSlots c iv = false) : selectNames c iv = specNames c iv := by
  rw [select_by_cases, specNames, ← declared_eq_spec c hwf]
  cases hd : declared c with
  | cons d ds => simp
  | nil =>
    simp only [storageBeyondSlots, hd, List.isEmpty_nil, Bool.true_and, Bool.or_eq_false_iff,
      Bool.not_eq_false', Bool.and_eq_false_iff, List.isEmpty_iff] at hex
    obtain ⟨hb, hsv⟩ := hex
    simp only [ne_eq, not_true_eq_false, if_false, storage, publicOf_append, hb, List.nil_append]
    by_cases hs : c.hasSlots = true
    · by_cases hp : publicOf c.slots = []
      · simp [hs, hp]
      · have hiv : publicOf iv = [] := by
          rcases hsv with (h | h) | h
          · simp [hs] at h
          · exact absurd h (by simpa using hp)
          · simpa using h
        simp [hs, hp, hiv]
    · simp [hs]
      rfl

/-! ### (b) declared fields win over `__slots__` -/

/-- **(b) select_ignores_slots_when_declared.** -/
theorem select_ignores_slots_when_declared (c : ClassShape) (iv : List Str) (h : declared c ≠ [])
    (hs : Bool) (ss bs : List Str) :
    selectNames { c with hasSlots := hs, slots := ss, baseSlots := bs } iv = selectNames c iv
      ∧ selectNames c iv = declared c := by
  have h' : declared { c with hasSlots := hs, slots := ss, baseSlots := bs } = declared c := rfl
  rw [select_by_cases, select_by_cases, h']
  simp [h]

/-! ### (c) pseudo-fields -/

theorem mem_dcPublic {c : ClassShape} {x : Str} :
    x ∈ dcPublic c ↔ (x, FieldKind.field) ∈ c.dcFields ∧ isPublic x = true := by
  simp only [dcPublic, dcNames, mem_publicOf, List.mem_map, List.mem_filter, isFieldEntry]
  constructor
  · rintro ⟨⟨⟨k, v⟩, ⟨hm, hv⟩, rfl⟩, hp⟩
    have : v = .field := by simpa using hv
    subst this
    exact ⟨hm, hp⟩
  · rintro ⟨hm, hp⟩
    exact ⟨⟨(x, .field), ⟨hm, by simp⟩, rfl⟩, hp⟩

theorem mem_hintPublic {c : ClassShape} {x : Str} :
    x ∈ hintPublic c ↔ (∃ k, (x, k) ∈ c.hints ∧ k = HintKind.inst) ∧ isPublic x = true := by
  simp only [hintPublic, typeHints, List.mem_map, List.mem_filter, isInstHint, notKwOnly]
  constructor
  · rintro ⟨⟨k, v⟩, ⟨⟨hm, hk⟩, hv⟩, rfl⟩
    cases v <;> simp_all
  · rintro ⟨⟨k, hm, rfl⟩, hp⟩
    exact ⟨(x, .inst), ⟨⟨hm, by simp⟩, by simp [hp]⟩, rfl⟩

/-- membership in the result, source by source -/
theorem mem_select {c : ClassShape} {iv : List Str} {x : Str} (h : x ∈ selectNames c iv) :
    x ∈ declared c ∨ (declared c = [] ∧ (x ∈ publicOf c.slots ∨ x ∈ publicOf iv)) := by
  rw [select_by_cases] at h
  by_cases hd : declared c = []
  · right
    refine ⟨hd, ?_⟩
    simp only [hd, ne_eq, not_true_eq_false, if_false] at h
    split at h
    · exact Or.inl h
    · exact Or.inr h
  · left; simpa [hd] using h

/-- **(c) select_excludes_pseudo.**  A ClassVar / InitVar entry of the dataclass field table is never
    selected: not as a declared field, and — when the class has no public field at all and the names
    come from the instance — only if the instance really stores an attribute of that name. -/
theorem select_excludes_pseudo (c : ClassShape) (iv : List Str) (hwf : wf c = true) (hd : c.isDataclass = true)
    (x : Str) (k : FieldKind) (hx : (x, k) ∈ c.dcFields) (hk : k ≠ .field)
    (hst : dcPublic c ≠ [] ∨ (x ∉ c.slots ∧ x ∉ iv)) : x ∉ selectNames c iv := by
  obtain ⟨hn, _⟩ := (wf_iff c).mp hwf
  have hdecl : declared c = dcPublic c := by simp [declared, hd]
  have hnot : x ∉ dcPublic c := by
    intro hm
    exact hk (value_unique c.dcFields hn x k .field hx (mem_dcPublic.mp hm).1)
  intro hsel
  rcases mem_select hsel with h | ⟨he, h⟩
  · exact hnot (hdecl ▸ h)
  · rcases hst with hst | ⟨h1, h2⟩
    · exact hst (hdecl ▸ he)
    · rcases h with h | h
      · exact h1 (mem_publicOf.mp h).1
      · exact h2 (mem_publicOf.mp h).1

/-- The same for the hint branch: a name whose resolved hint is `ClassVar` or the `KW_ONLY` sentinel. -/
theorem select_excludes_classvar (c : ClassShape) (iv : List Str) (hwf : wf c = true) (hd : c.isDataclass = false)
    (x : Str) (k : HintKind) (hx : (x, k) ∈ c.hints) (hk : k ≠ .inst)
    (hst : hintPublic c ≠ [] ∨ (x ∉ c.slots ∧ x ∉ iv)) : x ∉ selectNames c iv := by
  obtain ⟨_, hn, _⟩ := (wf_iff c).mp hwf
  have hdecl : declared c = hintPublic c := by simp [declared, hd]
  have hnot : x ∉ hintPublic c := by
    intro hm
    obtain ⟨⟨k', hm', rfl⟩, _⟩ := mem_hintPublic.mp hm
    exact hk (value_unique c.hints hn x k .inst hx hm')
  intro hsel
  rcases mem_select hsel with h | ⟨he, h⟩
  · exact hnot (hdecl ▸ h)
  · rcases hst with hst | ⟨h1, h2⟩
    · exact hst (hdecl ▸ he)
    · rcases h with h | h
      · exact h1 (mem_publicOf.mp h).1
      · exact h2 (mem_publicOf.mp h).1

/-! ### (d) inherited annotations -/

/-- **(d) select_includes_inherited.**  For a class that is no dataclass and whose hints resolve: the
    names the class annotates itself are only a PART of the resolved hints (`ownAnnotations ⊆ hints`),
    and every public name annotated by a base class whose resolved hint is an instance attribute is
    selected — whether or not the class annotates anything itself. -/
theorem select_includes_inherited (c : ClassShape) (iv : List Str) (hwf : wf c = true)
    (hd : c.isDataclass = false) (hres : c.hints ≠ []) :
    (∀ y ∈ c.ownAnnotations, y ∈ keysOf c.hints)
      ∧ (∀ x ∈ c.baseAnnotations, isPublic x = true → kindOf c x = some .inst → x ∈ selectNames c iv) := by
  obtain ⟨_, hn, _, _, hm⟩ := (wf_iff c).mp hwf
  have hkeys : keysOf c.hints = mergeDecl c.baseAnnotations c.ownAnnotations := by
    rcases hm with hm | hm
    · exact absurd hm hres
    · exact hm
  constructor
  · intro y hy
    rw [hkeys, mergeDecl]
    by_cases hb : y ∈ c.baseAnnotations
    · exact List.mem_append_left _ hb
    · exact List.mem_append_right _ (List.mem_filter.mpr ⟨hy, by simpa [notIn] using hb⟩)
  · intro x _ hp hk
    have hmem : (x, HintKind.inst) ∈ c.hints := mem_of_lookup c.hints x .inst hk
    have hx : x ∈ hintPublic c := mem_hintPublic.mpr ⟨⟨.inst, hmem, rfl⟩, hp⟩
    have hdecl : declared c = hintPublic c := by simp [declared, hd]
    have hne : declared c ≠ [] := by
      rw [hdecl]; intro he; rw [he] at hx; cases hx
    rw [(select_ignores_slots_when_declared c iv hne c.hasSlots c.slots c.baseSlots).2, hdecl]
    exact hx

/-! ### (e) one iterator per class, every instance its own `vars()` -/

theorem vars_iterator_iff (c : ClassShape) : makeIterator c = .vars ↔ attribs c = [] := by
  unfold makeIterator
  by_cases h : attribs c = []
  · simp [h]
  · have : (attribs c).isEmpty = false := by simpa using h
    simp [h, this]

/-- The memoised iterator answers every instance as if it were the first one. -/
theorem select_all_pointwise (c : ClassShape) (instances : List (List Str)) :
    selectAll c instances = instances.map (selectNames c) := rfl

/-- **(e) select_per_instance.**  In the `vars()` branch two instances with different attribute sets get
    their respective public vars, whichever comes first. -/
theorem select_per_instance (c : ClassShape) (h : makeIterator c = .vars) (iv₁ iv₂ : List Str) :
    selectAll c [iv₁, iv₂] = [publicOf iv₁, publicOf iv₂] ∧ selectAll c [iv₂, iv₁] = [publicOf iv₂, publicOf iv₁]
      ∧ selectNames c iv₁ = publicOf iv₁ ∧ selectNames c iv₂ = publicOf iv₂ := by
  simp [selectAll, selectNames, h, Iter.run]

/-! ### (f) public names only, source order kept -/

/-- **(f) select_public.** -/
theorem select_public (c : ClassShape) (iv : List Str) (x : Str) (h : x ∈ selectNames c iv) : isPublic x = true := by
  rcases mem_select h with h | ⟨_, h | h⟩
  · unfold declared at h
    split at h
    · exact (mem_dcPublic.mp h).2
    · exact (mem_hintPublic.mp h).2
  · exact (mem_publicOf.mp h).2
  · exact (mem_publicOf.mp h).2

/-- the list the names are taken from -/
def source (c : ClassShape) (iv : List Str) : List Str :=
  match tierOf c with
  | .declared => if c.isDataclass then keysOf c.dcFields else keysOf c.hints
  | .slots => c.slots
  | .vars => iv

theorem declared_sublist (c : ClassShape) :
    (declared c).Sublist (if c.isDataclass then keysOf c.dcFields else keysOf c.hints) := by
  unfold declared
  split
  · exact (publicOf_sublist _).trans (List.Sublist.map _ List.filter_sublist)
  · exact List.Sublist.map _ (List.filter_sublist.trans List.filter_sublist)

/-- **(f) select_sublist.**  The result keeps the order of its source (field table / resolved hints /
    `__slots__` / `vars()`), dropping names only. -/
theorem select_sublist (c : ClassShape) (iv : List Str) : (selectNames c iv).Sublist (source c iv) := by
  rw [select_by_cases]
  unfold source tierOf
  by_cases hd : declared c = []
  · by_cases hs : c.hasSlots = true
    · by_cases hp : publicOf c.slots = []
      · simpa [hd, hs, hp] using publicOf_sublist iv
      · have : (publicOf c.slots).isEmpty = false := by simpa using hp
        simpa [hd, hs, hp, this] using publicOf_sublist c.slots
    · simpa [hd, hs] using publicOf_sublist iv
  · have : (declared c).isEmpty = false := by simpa using hd
    simpa [hd, this] using declared_sublist c

theorem select_nodup (c : ClassShape) (iv : List Str) (hwf : wf c = true) (hs : c.slots.Nodup) (hiv : iv.Nodup) :
    (selectNames c iv).Nodup := by
  obtain ⟨h1, h2, _⟩ := (wf_iff c).mp hwf
  refine List.Sublist.nodup (select_sublist c iv) ?_
  unfold source
  split
  · split
    · exact h1
    · exact h2
  · exact hs
  · exact hiv

/-! ### (g) the selected names exist on the instance -/

/-- **(g) select_attrs_exist.** -/
theorem select_attrs_exist (c : ClassShape) (iv attrs : List Str) (h : instOk c iv attrs = true)
    (x : Str) (hx : x ∈ selectNames c iv) : x ∈ attrs := by
  simp only [instOk, Bool.and_eq_true, List.all_eq_true, List.contains_iff_mem] at h
  obtain ⟨⟨h1, h2⟩, h3⟩ := h
  rcases mem_select hx with hx | ⟨_, hx | hx⟩
  · exact h1 x hx
  · exact h2 x hx
  · exact h3 x (mem_publicOf.mp hx).1

/-! ### concrete shapes: the hypotheses are satisfiable, the statements are not vacuous -/

/-- `class SB: __slots__ = ("a", "_p")`, `class SC(SB): __slots__ = ("b",)`, nothing annotated. -/
def exSlotChild : ClassShape := { hasSlots := true, slots := ["b".toList], baseSlots := ["a".toList, "_p".toList] }

/-- `@dataclass(slots=True) class D4: a: int`, `@dataclass(slots=True) class D5(D4): b: int` -/
def exSlotDc : ClassShape :=
  { isDataclass := true, dcFields := [("a".toList, .field), ("b".toList, .field)],
    hints := [("a".toList, .inst), ("b".toList, .inst)], baseAnnotations := ["a".toList], ownAnnotations := ["b".toList],
    hasSlots := true, slots := ["b".toList], baseSlots := ["a".toList] }

/-- `@dataclass class D1: a: int; K: ClassVar[int] = 3; i: InitVar[int] = 0; _: KW_ONLY; _p: int = 0; z: int = 0` -/
def exPseudoDc : ClassShape :=
  { isDataclass := true,
    dcFields := [("a".toList, .field), ("K".toList, .classVar), ("i".toList, .initVar), ("_p".toList, .field), ("z".toList, .field)],
    hints := [("a".toList, .inst), ("K".toList, .classVar), ("i".toList, .inst), ("_".toList, .kwOnly), ("_p".toList, .inst), ("z".toList, .inst)],
    ownAnnotations := ["a".toList, "K".toList, "i".toList, "_".toList, "_p".toList, "z".toList] }

/-- `class A1: a: int; K: ClassVar[int] = 1; _p: str; kw: KW_ONLY`, `class A2(A1): z: int; a: str` -/
def exAnnChild : ClassShape :=
  { hints := [("a".toList, .inst), ("K".toList, .classVar), ("_p".toList, .inst), ("kw".toList, .kwOnly), ("z".toList, .inst)],
    baseAnnotations := ["a".toList, "K".toList, "_p".toList, "kw".toList], ownAnnotations := ["z".toList, "a".toList] }

/-- `class V: pass` with `v.a, v._b, v.c = …` and `w.c = …` -/
def exVars : ClassShape := {}
def exV1 : List Str := ["a".toList, "_b".toList, "c".toList]
def exV2 : List Str := ["c".toList]

example : wf exSlotChild = true ∧ wf exSlotDc = true ∧ wf exPseudoDc = true ∧ wf exAnnChild = true ∧ wf exVars = true := by decide

-- (a): hypotheses hold, on every tier
example : storageBeyondSlots exSlotDc [] = false ∧ selectNames exSlotDc [] = ["a".toList, "b".toList] :=
  ⟨by decide, by decide⟩
example : selectNames exAnnChild ["a".toList, "_p".toList, "kw".toList, "z".toList] = ["a".toList, "z".toList]
    ∧ specNames exAnnChild [] = ["a".toList, "z".toList] := by decide
example : storageBeyondSlots exVars exV1 = false ∧ selectNames exVars exV1 = ["a".toList, "c".toList] := by decide
example : storageBeyondSlots { exSlotChild with baseSlots := ["_p".toList] } [] = false
    ∧ selectNames { exSlotChild with baseSlots := ["_p".toList] } [] = ["b".toList] := by decide

/-- **select_spec_full_fails.**  `select_spec` cannot drop its second hypothesis: for the slotted child of
    a slotted base that annotates nothing, only the nearest `__slots__` is read — the public slot `a`
    of the base is a field of the object and is not selected.  (Behaviour of the pinned tree;
    C18 excludes such classes from its quantifier.) -/
theorem select_spec_full_fails :
    ¬ (∀ (c : ClassShape) (iv : List Str), wf c = true → selectNames c iv = specNames c iv) := by
  intro h
  exact absurd (h exSlotChild [] (by decide)) (by decide)

/-- **slots_first_needed** (seeded C02f).  The implementation that consults a non-empty `__slots__`
    first violates (b): the slotted dataclass that inherits a field yields only the field it adds. -/
theorem slots_first_needed :
    ¬ (∀ (c : ClassShape) (iv : List Str), wf c = true → declared c ≠ [] → slotsFirst c iv = declared c) := by
  intro h
  exact absurd (h exSlotDc [] (by decide) (by decide)) (by decide)

example : slotsFirst exSlotDc [] = ["b".toList] ∧ selectNames exSlotDc [] = ["a".toList, "b".toList] := by decide

/-- **raw_dataclass_fields_needed** (seeded C05f).  Reading `__dataclass_fields__` unfiltered violates
    (c): the ClassVar `K` and the InitVar `i` are enumerated. -/
theorem raw_dataclass_fields_needed :
    ¬ (∀ (c : ClassShape) (iv : List Str) (x : Str) (k : FieldKind), wf c = true → c.isDataclass = true →
        (x, k) ∈ c.dcFields → k ≠ .field → dcPublic c ≠ [] → x ∉ rawDc c iv) := by
  intro h
  exact h exPseudoDc [] "K".toList .classVar (by decide) rfl (by decide) (by decide) (by decide) (by decide)

example : rawDc exPseudoDc [] = ["a".toList, "K".toList, "i".toList, "z".toList]
    ∧ selectNames exPseudoDc [] = ["a".toList, "z".toList] := by decide
example : "K".toList ∉ selectNames exPseudoDc [] :=
  select_excludes_pseudo exPseudoDc [] (by decide) rfl _ .classVar (by decide) (by decide) (Or.inl (by decide))

/-- **own_annotations_only_needed** (seeded C13f).  Reading the class's own annotations violates (d):
    the field `a` annotated by the base class disappears. -/
theorem own_annotations_only_needed :
    ¬ (∀ (c : ClassShape) (iv : List Str), wf c = true → c.isDataclass = false → c.hints ≠ [] →
        ∀ x ∈ c.baseAnnotations, isPublic x = true → kindOf c x = some .inst → x ∈ ownOnly c iv) := by
  intro h
  have := h { exAnnChild with ownAnnotations := ["z".toList] } [] (by decide) rfl (by decide) "a".toList (by decide) (by decide) (by decide)
  exact absurd this (by decide)

example : ownOnly { exAnnChild with ownAnnotations := ["z".toList] } [] = ["z".toList]
    ∧ selectNames { exAnnChild with ownAnnotations := ["z".toList] } [] = ["a".toList, "z".toList] := by decide
example : "a".toList ∈ selectNames exAnnChild [] :=
  (select_includes_inherited exAnnChild [] (by decide) rfl (by decide)).2 _ (by decide) (by decide) (by decide)

/-- **memo_first_instance_needed** (seeded C12f).  Memoising the names of the first instance violates
    (e): the second instance is answered with the first one's names, and the answer depends on the order. -/
theorem memo_first_instance_needed :
    ¬ (∀ (c : ClassShape) (instances : List (List Str)), memoAll c instances = instances.map (selectNames c)) := by
  intro h
  exact absurd (h exVars [exV1, exV2]) (by decide)

example : memoAll exVars [exV1, exV2] = [["a".toList, "c".toList], ["a".toList, "c".toList]]
    ∧ memoAll exVars [exV2, exV1] = [["c".toList], ["c".toList]]
    ∧ selectAll exVars [exV1, exV2] = [["a".toList, "c".toList], ["c".toList]]
    ∧ selectAll exVars [exV2, exV1] = [["c".toList], ["a".toList, "c".toList]] := by decide
example : selectAll exVars [exV1, exV2] = [publicOf exV1, publicOf exV2] :=
  (select_per_instance exVars (by decide) exV1 exV2).1

-- (f), (g)
example : (selectNames exPseudoDc []).Nodup := select_nodup exPseudoDc [] (by decide) (by decide) (by decide)
example : instOk exSlotDc [] ["a".toList, "b".toList] = true := by decide
example : instOk exVars exV1 exV1 = true := by decide

end Typelib.FieldSel
