/-
  C10 — Bound callables get every argument converted per its own parameter.

  Model: `Model/Binding.lean` (registration loop of `_get_binding`, the 16 concrete binder classes, Python's
  own argument binding as the specification).  The per-parameter unmarshallers are abstract tags: the
  theorems say WHICH routine converts each argument, for arbitrary argument values.

  Main results
    * `layout_spec`, `truth_eq_presence` — what the registration loop computes, for every signature;
    * `mode_sound`      (a) the closed formula `AdequateModes` is sound: over all signatures and all accepted
                            calls (induction over the argument lists, no enumeration);
    * `adequate_exact`      … and exact: an inadequate pair mis-binds some accepted call;
    * `matrix_adequate` (b) the table regenerated from the live `_BINDING_CLS_MATRIX` passes it (`decide`);
    * `bind_correct`, `bind_correct_pointwise`, `bind_values`, `wrap_correct`   (c);
    * `shape_preserved`, `rejected_stays_rejected`, `no_key_slip_when_accepted`   (d);
    * section 5: examples (e).
  On the tree as it stands (after commit 67daf6b) every statement holds; nothing had to be weakened.
  Outside the model: `functools.wraps` metadata copying and the `__init__` patch of `wrap(cls)` (CPython
  mechanisms; observed by the harness oracle), and the semantics of the routines themselves (C01…).
-/
import TypelibModel.Model.Binding
import TypelibModel.Gen.BindingMatrix
namespace Typelib.C10
open Typelib Typelib.Binding

/-! ## 1. What the registration loop of `_get_binding` computes -/

def Kind.isPos : Kind → Bool
  | .po => true | .pk => true | _ => false

def Kind.isKw : Kind → Bool
  | .pk => true | .ko => true | _ => false

def isKind (K : Kind) (p : Name × Kind) : Bool := decide (p.2 = K)

/-- Parameter `p` is registered under the name `k`. -/
def regsName (k : Name) (p : Name × Kind) : Bool := Kind.isKw p.2 && p.1 == k

theorem regLoop_append (a b : List (Name × Kind)) : ∀ (st : Reg) (i : Nat),
    regLoop st i (a ++ b) = regLoop (regLoop st i a) (i + a.length) b := by
  induction a with
  | nil => intro st i; simp [regLoop]
  | cons p ps ih =>
    intro st i
    simp only [List.cons_append, regLoop, List.length_cons]
    rw [ih]
    congr 1
    omega

theorem byIdx_nonpos (ps : List (Name × Kind)) : ∀ (st : Reg) (i : Nat),
    (∀ p ∈ ps, Kind.isPos p.2 = false) → (regLoop st i ps).byIdx = st.byIdx := by
  induction ps with
  | nil => intro st i _; rfl
  | cons p ps ih =>
    intro st i h
    simp only [regLoop]
    rw [ih _ _ (fun q hq => h q (List.mem_cons_of_mem _ hq))]
    have hp := h p (List.mem_cons_self ..)
    cases hk : p.2 <;> simp [hk, Kind.isPos] at hp <;> simp [regStep]

theorem byIdx_pos (ps : List (Name × Kind)) : ∀ (st : Reg) (i : Nat),
    (∀ p ∈ ps, Kind.isPos p.2 = true) → ∀ j, (regLoop st i ps).byIdx j =
      if i ≤ j then ((ps[j - i]?).map Prod.fst).or (st.byIdx j) else st.byIdx j := by
  induction ps with
  | nil => intro st i _ j; simp [regLoop]
  | cons p ps ih =>
    intro st i h j
    simp only [regLoop]
    rw [ih _ _ (fun q hq => h q (List.mem_cons_of_mem _ hq))]
    have hp := h p (List.mem_cons_self ..)
    have hst : (regStep st i p.1 p.2).byIdx j = if j = i then some p.1 else st.byIdx j := by
      cases hk : p.2 <;> simp [hk, Kind.isPos] at hp <;> simp [regStep, dictSet]
    rw [hst]
    rcases Nat.lt_trichotomy j i with hlt | heq | hgt
    · have h1 : ¬ (i + 1 ≤ j) := by omega
      have h2 : ¬ (i ≤ j) := by omega
      have h3 : j ≠ i := by omega
      simp [h1, h2, h3]
    · subst heq
      have h1 : ¬ (j + 1 ≤ j) := by omega
      simp [h1]
    · have h1 : i + 1 ≤ j := by omega
      have h2 : i ≤ j := by omega
      have h3 : j ≠ i := by omega
      have h4 : j - i = (j - (i + 1)) + 1 := by omega
      simp only [h1, h2, h3, if_true, if_false]
      rw [h4, List.getElem?_cons_succ]

theorem byName_loop (k : Name) (ps : List (Name × Kind)) : ∀ (st : Reg) (i : Nat),
    (regLoop st i ps).byName k = if ps.any (regsName k) then some k else st.byName k := by
  induction ps with
  | nil => intro st i; simp [regLoop]
  | cons p ps ih =>
    intro st i
    simp only [regLoop, List.any_cons]
    rw [ih]
    by_cases hany : ps.any (regsName k) = true
    · simp [hany]
    · simp only [hany, Bool.or_false]
      cases hk : p.2 <;> by_cases hn : p.1 = k <;> simp [regStep, regsName, Kind.isKw, hk, hn, dictSet] <;>
        (intro h; exact absurd h.symm hn)

theorem row_loop (ps : List (Name × Kind)) : ∀ (st : Reg) (i : Nat),
    (regLoop st i ps).row = (st.hasPo || ps.any (isKind .po), st.hasKo || ps.any (isKind .ko),
      st.hasVa || ps.any (isKind .va), st.hasVk || ps.any (isKind .vk), st.hasPk || ps.any (isKind .pk)) := by
  induction ps with
  | nil => intro st i; simp [regLoop, Reg.row]
  | cons p ps ih =>
    intro st i
    simp only [regLoop, List.any_cons]
    rw [ih]
    cases hk : p.2 <;> simp [regStep, isKind, hk]

theorem startpos_unchanged (ps : List (Name × Kind)) : ∀ (st : Reg) (i : Nat),
    (∀ p ∈ ps, p.2 ≠ .po ∧ p.2 ≠ .va) → (regLoop st i ps).startpos = st.startpos := by
  induction ps with
  | nil => intro st i _; rfl
  | cons p ps ih =>
    intro st i h
    simp only [regLoop]
    rw [ih _ _ (fun q hq => h q (List.mem_cons_of_mem _ hq))]
    have hp := h p (List.mem_cons_self ..)
    cases hk : p.2 <;> simp [hk] at hp <;> simp [regStep]

theorem startpos_po (ns : List Name) : ∀ (st : Reg) (i : Nat), ns ≠ [] →
    (regLoop st i (ns.map (tagKind .po))).startpos = some (i + ns.length) := by
  induction ns with
  | nil => intro st i h; exact absurd rfl h
  | cons n ns ih =>
    intro st i _
    simp only [List.map_cons, regLoop, tagKind, List.length_cons]
    by_cases hns : ns = []
    · subst hns; simp [regLoop, regStep]
    · rw [ih _ _ hns]; congr 1; omega

theorem varpos_unchanged (ps : List (Name × Kind)) : ∀ (st : Reg) (i : Nat),
    (∀ p ∈ ps, p.2 ≠ .va) → (regLoop st i ps).varpos = st.varpos := by
  induction ps with
  | nil => intro st i _; rfl
  | cons p ps ih =>
    intro st i h
    simp only [regLoop]
    rw [ih _ _ (fun q hq => h q (List.mem_cons_of_mem _ hq))]
    have hp := h p (List.mem_cons_self ..)
    cases hk : p.2 <;> simp [hk] at hp <;> simp [regStep]

theorem varkwd_unchanged (ps : List (Name × Kind)) : ∀ (st : Reg) (i : Nat),
    (∀ p ∈ ps, p.2 ≠ .vk) → (regLoop st i ps).varkwd = st.varkwd := by
  induction ps with
  | nil => intro st i _; rfl
  | cons p ps ih =>
    intro st i h
    simp only [regLoop]
    rw [ih _ _ (fun q hq => h q (List.mem_cons_of_mem _ hq))]
    have hp := h p (List.mem_cons_self ..)
    cases hk : p.2 <;> simp [hk] at hp <;> simp [regStep]

/-- The five segments of `Sig.params`, with the index each starts at. -/
theorem finalReg_eq (s : Sig) : finalReg s =
    regLoop (regLoop (regLoop (regLoop (regLoop {} 0 (s.po.map (tagKind .po)))
      s.po.length (s.pk.map (tagKind .pk)))
      (s.po.length + s.pk.length) (s.va.toList.map (tagKind .va)))
      (s.po.length + s.pk.length + s.va.toList.length) (s.ko.map (tagKind .ko)))
      (s.po.length + s.pk.length + s.va.toList.length + s.ko.length) (s.vk.toList.map (tagKind .vk)) := by
  simp only [finalReg, Sig.params, regLoop_append, List.length_map, Nat.zero_add]

theorem kinds_of_map (K : Kind) (ns : List Name) : ∀ p ∈ ns.map (tagKind K), p.2 = K := by
  intro p hp
  obtain ⟨n, _, rfl⟩ := List.mem_map.mp hp
  rfl

/-- What `_get_binding` hands to the binder, in closed form. -/
structure LayoutSpec (s : Sig) (L : Layout) : Prop where
  idx : ∀ j, L.byIdx j = (s.po ++ s.pk)[j]?
  name : ∀ k, L.byName k = if k ∈ s.pk ++ s.ko then some k else none
  startpos : L.startpos = if s.va.isSome then some (s.po.length + s.pk.length)
                          else if s.po = [] then none else some s.po.length
  varpos : L.varpos = s.va
  varkwd : L.varkwd = s.vk

theorem layout_idx (s : Sig) (j : Nat) : (layout s).byIdx j = (s.po ++ s.pk)[j]? := by
  have hparams : s.params = (s.po.map (tagKind .po) ++ s.pk.map (tagKind .pk)) ++
      (s.va.toList.map (tagKind .va) ++ (s.ko.map (tagKind .ko) ++ s.vk.toList.map (tagKind .vk))) := by
    simp [Sig.params]
  have hpos : ∀ p ∈ s.po.map (tagKind .po) ++ s.pk.map (tagKind .pk), Kind.isPos p.2 = true := by
    intro p hp
    rcases List.mem_append.mp hp with h | h
    · rw [kinds_of_map _ _ p h]; rfl
    · rw [kinds_of_map _ _ p h]; rfl
  have hnon : ∀ p ∈ s.va.toList.map (tagKind .va) ++ (s.ko.map (tagKind .ko) ++ s.vk.toList.map (tagKind .vk)),
      Kind.isPos p.2 = false := by
    intro p hp
    rcases List.mem_append.mp hp with h | h
    · rw [kinds_of_map _ _ p h]; rfl
    · rcases List.mem_append.mp h with h | h
      · rw [kinds_of_map _ _ p h]; rfl
      · rw [kinds_of_map _ _ p h]; rfl
  show (finalReg s).byIdx j = _
  unfold finalReg
  rw [hparams, regLoop_append, byIdx_nonpos _ _ _ hnon, byIdx_pos _ _ _ hpos]
  have hmap : (s.po.map (tagKind .po) ++ s.pk.map (tagKind .pk)).map Prod.fst = s.po ++ s.pk := by
    simp [List.map_append, List.map_map, Function.comp_def, tagKind]
  simp only [Nat.zero_le, if_true, Nat.sub_zero]
  rw [← List.getElem?_map, hmap]
  show ((s.po ++ s.pk)[j]?).or none = _
  simp

theorem layout_name (s : Sig) (k : Name) :
    (layout s).byName k = if k ∈ s.pk ++ s.ko then some k else none := by
  show (finalReg s).byName k = _
  unfold finalReg
  rw [byName_loop]
  have h0 : ({} : Reg).byName k = none := rfl
  rw [h0]
  have hany : s.params.any (regsName k) = decide (k ∈ s.pk ++ s.ko) := by
    rw [Bool.eq_iff_iff]
    simp only [List.any_eq_true, decide_eq_true_eq, List.mem_append]
    constructor
    · rintro ⟨p, hp, hr⟩
      simp only [Sig.params, List.mem_append, List.mem_map] at hp
      simp only [regsName, Bool.and_eq_true, beq_iff_eq] at hr
      rcases hp with ⟨n, _, rfl⟩ | ⟨n, hn, rfl⟩ | ⟨n, _, rfl⟩ | ⟨n, hn, rfl⟩ | ⟨n, _, rfl⟩
      · simp [tagKind, Kind.isKw] at hr
      · left; simp only [tagKind] at hr; rw [← hr.2]; exact hn
      · simp [tagKind, Kind.isKw] at hr
      · right; simp only [tagKind] at hr; rw [← hr.2]; exact hn
      · simp [tagKind, Kind.isKw] at hr
    · rintro (h | h)
      · exact ⟨(k, .pk), by simp [Sig.params, tagKind, h], by simp [regsName, Kind.isKw]⟩
      · exact ⟨(k, .ko), by simp [Sig.params, tagKind, h], by simp [regsName, Kind.isKw]⟩
  rw [hany]
  by_cases h : k ∈ s.pk ++ s.ko <;> simp [h]

theorem layout_varpos (s : Sig) : (layout s).varpos = s.va := by
  show (finalReg s).varpos = _
  rw [finalReg_eq]
  rw [varpos_unchanged _ _ _ (fun p hp => by rw [kinds_of_map _ _ p hp]; decide)]
  rw [varpos_unchanged _ _ _ (fun p hp => by rw [kinds_of_map _ _ p hp]; decide)]
  cases hva : s.va with
  | none =>
    simp only [Option.toList_none, List.map_nil, regLoop]
    rw [varpos_unchanged _ _ _ (fun p hp => by rw [kinds_of_map _ _ p hp]; decide)]
    rw [varpos_unchanged _ _ _ (fun p hp => by rw [kinds_of_map _ _ p hp]; decide)]
  | some q => simp [regLoop, regStep, tagKind]

theorem layout_varkwd (s : Sig) : (layout s).varkwd = s.vk := by
  show (finalReg s).varkwd = _
  rw [finalReg_eq]
  cases hvk : s.vk with
  | none =>
    simp only [Option.toList_none, List.map_nil, regLoop]
    rw [varkwd_unchanged _ _ _ (fun p hp => by rw [kinds_of_map _ _ p hp]; decide)]
    rw [varkwd_unchanged _ _ _ (fun p hp => by rw [kinds_of_map _ _ p hp]; decide)]
    rw [varkwd_unchanged _ _ _ (fun p hp => by rw [kinds_of_map _ _ p hp]; decide)]
    rw [varkwd_unchanged _ _ _ (fun p hp => by rw [kinds_of_map _ _ p hp]; decide)]
  | some q => simp [regLoop, regStep, tagKind]

theorem layout_startpos (s : Sig) : (layout s).startpos =
    if s.va.isSome then some (s.po.length + s.pk.length) else if s.po = [] then none else some s.po.length := by
  show (finalReg s).startpos = _
  rw [finalReg_eq]
  rw [startpos_unchanged _ _ _ (fun p hp => by rw [kinds_of_map _ _ p hp]; decide)]
  rw [startpos_unchanged _ _ _ (fun p hp => by rw [kinds_of_map _ _ p hp]; decide)]
  cases hva : s.va with
  | some q => simp [regLoop, regStep, tagKind]
  | none =>
    simp only [Option.toList_none, List.map_nil, regLoop, Option.isSome_none, Bool.false_eq_true, if_false]
    rw [startpos_unchanged _ _ _ (fun p hp => by rw [kinds_of_map _ _ p hp]; decide)]
    by_cases hpo : s.po = []
    · simp [hpo, regLoop]
    · rw [startpos_po _ _ _ hpo]; simp [hpo]

theorem layout_spec (s : Sig) : LayoutSpec s (layout s) :=
  ⟨layout_idx s, layout_name s, layout_startpos s, layout_varpos s, layout_varkwd s⟩

/-- The `_Truth` key `_get_binding` computes is the presence row of the signature. -/
theorem truth_eq_presence (s : Sig) : truth s = s.presence := by
  show (finalReg s).row = _
  unfold finalReg
  rw [row_loop]
  have h : ∀ (K : Kind), s.params.any (isKind K) =
      match K with
      | .po => !s.po.isEmpty | .pk => !s.pk.isEmpty | .va => s.va.isSome | .ko => !s.ko.isEmpty | .vk => s.vk.isSome := by
    intro K
    cases K <;> cases hpo : s.po <;> cases hpk : s.pk <;> cases hva : s.va <;> cases hko : s.ko <;> cases hvk : s.vk <;>
      simp [Sig.params, isKind, tagKind, hpo, hpk, hva, hko, hvk, List.any_append]
  simp only [h, Sig.presence]
  rfl

/-! ## 2. Adequacy of a (positional mode, keyword mode) pair for a presence row, and its soundness -/

/-- The positional treatment is right for every signature of the row. -/
def adequatePos : PosMode → Row → Bool
  | .indexedAll, (_, _, va, _, _) => !va
  | .indexedPrefix, (_, _, va, _, pk) => va || !pk
  | .allVar, (po, _, _, _, pk) => !po && !pk
  | .raw, (po, _, va, _, pk) => !po && !pk && !va

/-- The keyword treatment is right for every signature of the row. -/
def adequateKw : KwMode → Row → Bool
  | .getOrVarkwd, _ => true
  | .varkwdAll, (_, ko, _, _, pk) => !pk && !ko
  | .idxElseRaw, (_, _, _, vk, _) => !vk
  | .idxElseKey, (_, _, _, vk, _) => !vk
  | .raw, (_, ko, _, vk, pk) => !pk && !ko && !vk

/-- A closed boolean formula in the five presence bits. -/
def AdequateModes (pm : PosMode) (km : KwMode) (r : Row) : Bool := adequatePos pm r && adequateKw km r

section sound
variable {α : Type}

theorem cell_hit {s : Sig} {L : Layout} (hL : LayoutSpec s L) {i : Nat} {p : Name} (v : α)
    (h : (s.po ++ s.pk)[i]? = some p) : idxCell L i v = .conv p v ∧ specCell (posTarget s i) v = .conv p v := by
  simp [idxCell, hL.idx, h, posTarget, specCell]

theorem cell_miss {s : Sig} {L : Layout} (hL : LayoutSpec s L) {i : Nat} (v : α)
    (h : (s.po ++ s.pk)[i]? = none) : idxCell L i v = .raw v ∧ specCell (posTarget s i) v = specCell s.va v := by
  simp [idxCell, hL.idx, h, posTarget]

/-- Without `*args`, `enumerate(args)` is right at every index. -/
theorem posIndexed_noVa {s : Sig} {L : Layout} (hL : LayoutSpec s L) (hva : s.va = none) :
    ∀ (args : List α) (i : Nat), posIndexed L i args = expectedPos s i args := by
  intro args
  induction args with
  | nil => intro i; rfl
  | cons v vs ih =>
    intro i
    simp only [posIndexed, expectedPos, ih]
    cases h : (s.po ++ s.pk)[i]? with
    | some p => rw [(cell_hit hL v h).1, (cell_hit hL v h).2]
    | none => rw [(cell_miss hL v h).1, (cell_miss hL v h).2, hva]; rfl

/-- Below the number of positional parameters, `enumerate` is right. -/
theorem posIndexed_below {s : Sig} {L : Layout} (hL : LayoutSpec s L) :
    ∀ (xs : List α) (i : Nat), i + xs.length ≤ s.po.length + s.pk.length →
      posIndexed L i xs = expectedPos s i xs := by
  intro xs
  induction xs with
  | nil => intro i _; rfl
  | cons v vs ih =>
    intro i h
    simp only [List.length_cons] at h
    simp only [posIndexed, expectedPos]
    rw [ih (i + 1) (by omega)]
    have hlt : i < (s.po ++ s.pk).length := by simp only [List.length_append]; omega
    have hget : (s.po ++ s.pk)[i]? = some (s.po ++ s.pk)[i] := List.getElem?_eq_getElem hlt
    rw [(cell_hit hL v hget).1, (cell_hit hL v hget).2]

/-- From the number of positional parameters on, every positional argument belongs to `*args`. -/
theorem expectedPos_above (s : Sig) : ∀ (xs : List α) (i : Nat), s.po.length + s.pk.length ≤ i →
    expectedPos s i xs = xs.map (specCell s.va) := by
  intro xs
  induction xs with
  | nil => intro i _; rfl
  | cons v vs ih =>
    intro i h
    simp only [expectedPos, List.map_cons]
    rw [ih (i + 1) (by omega)]
    have hnone : (s.po ++ s.pk)[i]? = none := by
      apply List.getElem?_eq_none; simp only [List.length_append]; omega
    simp [posTarget, hnone]

theorem mapVar_some (q : Name) : ∀ xs : List α, mapVar (some q) xs = some (xs.map (specCell (some q))) := by
  intro xs
  induction xs with
  | nil => rfl
  | cons v vs ih => simp [mapVar, ih, callOpt, specCell]

theorem expectedPos_append (s : Sig) : ∀ (a b : List α) (i : Nat),
    expectedPos s i (a ++ b) = expectedPos s i a ++ expectedPos s (i + a.length) b := by
  intro a
  induction a with
  | nil => intro b i; simp [expectedPos]
  | cons v vs ih =>
    intro b i
    simp only [List.cons_append, expectedPos, List.length_cons]
    rw [ih]
    congr 3
    omega

/-- `args[:N]` indexed and `args[N:]` through the `*args` routine `q`: right when `N` is the number of
    positional parameters. -/
theorem posPrefix_va {s : Sig} {L : Layout} (hL : LayoutSpec s L) {q : Name} (hva : s.va = some q)
    (args : List α) : posPrefix L args = some (expectedPos s 0 args) := by
  have hsp : L.startpos = some (s.po.length + s.pk.length) := by rw [hL.startpos]; simp [hva]
  have hvp : L.varpos = some q := by rw [hL.varpos, hva]
  simp only [posPrefix, hsp, hvp, sliceFrom, sliceTo, mapVar_some]
  congr 1
  have hsplit : expectedPos s 0 args =
      expectedPos s 0 (args.take (s.po.length + s.pk.length) ++ args.drop (s.po.length + s.pk.length)) := by
    rw [List.take_append_drop]
  rw [hsplit, expectedPos_append]
  rw [posIndexed_below hL _ 0 (by simp only [List.length_take]; omega)]
  congr 1
  by_cases hlen : args.length ≤ s.po.length + s.pk.length
  · rw [List.drop_eq_nil_of_le hlen]; rfl
  · rw [expectedPos_above s _ _ (by simp only [List.length_take]; omega), hva]

theorem presence_po (s : Sig) : s.presence.1 = !s.po.isEmpty := rfl
theorem presence_ko (s : Sig) : s.presence.2.1 = !s.ko.isEmpty := rfl
theorem presence_va (s : Sig) : s.presence.2.2.1 = s.va.isSome := rfl
theorem presence_vk (s : Sig) : s.presence.2.2.2.1 = s.vk.isSome := rfl
theorem presence_pk (s : Sig) : s.presence.2.2.2.2 = !s.pk.isEmpty := rfl

theorem pos_sound (pm : PosMode) (s : Sig) {L : Layout} (hL : LayoutSpec s L) (args : List α)
    (hadq : adequatePos pm s.presence = true)
    (hacc : args.length ≤ s.po.length + s.pk.length ∨ s.va.isSome = true) :
    applyPos pm L args = some (expectedPos s 0 args) := by
  cases pm with
  | indexedAll =>
    have hva : s.va = none := by
      simp only [adequatePos, Sig.presence, Bool.not_eq_true'] at hadq
      cases h : s.va <;> simp_all
    simp only [applyPos, posAll]
    rw [posIndexed_noVa hL hva]
  | indexedPrefix =>
    simp only [applyPos]
    cases hva : s.va with
    | some q => exact posPrefix_va hL hva args
    | none =>
      have hpk : s.pk = [] := by
        simp only [adequatePos, Sig.presence, hva, Option.isSome_none, Bool.false_or, Bool.not_eq_true',
          Bool.not_eq_false', List.isEmpty_iff] at hadq
        exact hadq
      have hlen : args.length ≤ s.po.length := by
        rcases hacc with h | h
        · simpa [hpk] using h
        · simp [hva] at h
      have hvp : L.varpos = none := by rw [hL.varpos, hva]
      by_cases hpo : s.po = []
      · have hnil : args = [] := by simpa [hpo] using hlen
        subst hnil
        have hsp : L.startpos = none := by rw [hL.startpos]; simp [hva, hpo]
        simp [posPrefix, hsp, sliceFrom, sliceTo, mapVar, posIndexed, expectedPos]
      · have hsp : L.startpos = some s.po.length := by rw [hL.startpos]; simp [hva, hpo]
        simp only [posPrefix, hsp, sliceFrom, sliceTo, List.drop_eq_nil_of_le hlen, mapVar,
          List.take_of_length_le hlen, List.append_nil]
        rw [posIndexed_noVa hL hva]
  | allVar =>
    have hnil : s.po = [] ∧ s.pk = [] := by
      simp only [adequatePos, Sig.presence, Bool.and_eq_true, Bool.not_eq_true', Bool.not_eq_false',
        List.isEmpty_iff] at hadq
      exact hadq
    simp only [applyPos, posAllVar]
    cases hva : s.va with
    | some q =>
      rw [hL.varpos, hva, mapVar_some, expectedPos_above s _ _ (by simp [hnil.1, hnil.2]), hva]
    | none =>
      have : args = [] := by
        rcases hacc with h | h
        · apply List.eq_nil_of_length_eq_zero; simpa [hnil.1, hnil.2] using h
        · simp [hva] at h
      subst this
      simp [mapVar, expectedPos]
  | raw =>
    have hnil : (s.po = [] ∧ s.pk = []) ∧ s.va = none := by
      simp only [adequatePos, Sig.presence, Bool.and_eq_true, Bool.not_eq_true', Bool.not_eq_false',
        List.isEmpty_iff, Option.isSome_eq_false_iff, Option.isNone_iff_eq_none] at hadq
      exact hadq
    have : args = [] := by
      rcases hacc with h | h
      · apply List.eq_nil_of_length_eq_zero; simpa [hnil.1.1, hnil.1.2] using h
      · simp [hnil.2] at h
    subst this
    simp [applyPos, posRaw, expectedPos]

theorem mapKw_sound (s : Sig) (f : Name → α → Option (Cell α)) : ∀ kws : List (Name × α),
    (∀ p ∈ kws, f p.1 p.2 = some (specCell (kwTarget s p.1) p.2)) → mapKw f kws = some (expectedKw s kws) := by
  intro kws
  induction kws with
  | nil => intro _; rfl
  | cons p ps ih =>
    intro h
    have hp := h p (List.mem_cons_self ..)
    have hps := ih (fun q hq => h q (List.mem_cons_of_mem _ hq))
    simp only [mapKw, hp, hps, expectedKw, List.map_cons, expectedKwEntry]

/-- A keyword Python can bind: the name of a pk / ko parameter, or anything if there is a `**kwargs`. -/
def Bindable (s : Sig) (k : Name) : Prop := k ∈ s.pk ++ s.ko ∨ s.vk.isSome = true

theorem bindable_of_kwOk {s : Sig} {n : Nat} {k : Name} (h : kwOk s n k = true) : Bindable s k := by
  unfold kwOk at h
  unfold Bindable
  by_cases h1 : k ∈ s.pk
  · left; exact List.mem_append_left _ h1
  · by_cases h2 : k ∈ s.ko
    · left; exact List.mem_append_right _ h2
    · right; simpa [h1, h2] using h

theorem kw_sound (km : KwMode) (s : Sig) {L : Layout} (hL : LayoutSpec s L) (kws : List (Name × α))
    (hadq : adequateKw km s.presence = true) (hacc : ∀ p ∈ kws, Bindable s p.1) :
    applyKw km L kws = some (expectedKw s kws) := by
  cases km with
  | getOrVarkwd =>
    apply mapKw_sound
    intro p hp
    simp only [kwGetOrVarkwd, hL.name, kwTarget, hL.varkwd]
    by_cases hmem : p.1 ∈ s.pk ++ s.ko
    · simp [hmem, specCell]
    · rcases hacc p hp with h | h
      · exact absurd h hmem
      · obtain ⟨q, hq⟩ := Option.isSome_iff_exists.mp h
        simp [hmem, hq, callOpt, specCell]
  | varkwdAll =>
    have hnil : s.pk = [] ∧ s.ko = [] := by
      simp only [adequateKw, Sig.presence, Bool.and_eq_true, Bool.not_eq_true', Bool.not_eq_false',
        List.isEmpty_iff] at hadq
      exact hadq
    apply mapKw_sound
    intro p hp
    rcases hacc p hp with h | h
    · simp [hnil.1, hnil.2] at h
    · obtain ⟨q, hq⟩ := Option.isSome_iff_exists.mp h
      simp [kwVarkwd, hL.varkwd, kwTarget, hnil.1, hnil.2, hq, callOpt, specCell]
  | idxElseRaw =>
    have hvk : s.vk = none := by
      simp only [adequateKw, Sig.presence, Bool.not_eq_true'] at hadq
      cases h : s.vk <;> simp_all
    apply mapKw_sound
    intro p hp
    rcases hacc p hp with h | h
    · simp [kwIdxElseRaw, hL.name, kwTarget, h, specCell]
    · simp [hvk] at h
  | idxElseKey =>
    have hvk : s.vk = none := by
      simp only [adequateKw, Sig.presence, Bool.not_eq_true'] at hadq
      cases h : s.vk <;> simp_all
    apply mapKw_sound
    intro p hp
    rcases hacc p hp with h | h
    · simp [kwIdxElseKey, hL.name, kwTarget, h, specCell]
    · simp [hvk] at h
  | raw =>
    have hnil : (s.pk = [] ∧ s.ko = []) ∧ s.vk = none := by
      simp only [adequateKw, Sig.presence, Bool.and_eq_true, Bool.not_eq_true', Bool.not_eq_false',
        List.isEmpty_iff, Option.isSome_eq_false_iff, Option.isNone_iff_eq_none] at hadq
      exact hadq
    apply mapKw_sound
    intro p hp
    rcases hacc p hp with h | h
    · simp [hnil.1.1, hnil.1.2] at h
    · simp [hnil.2] at h

theorem accepted_pos {s : Sig} {c : Call α} (h : accepted s c = true) :
    c.args.length ≤ s.po.length + s.pk.length ∨ s.va.isSome = true := by
  simp only [accepted, Bool.and_eq_true, Bool.or_eq_true, decide_eq_true_eq] at h
  exact h.1.1

theorem accepted_kw {s : Sig} {c : Call α} (h : accepted s c = true) : ∀ p ∈ c.kwargs, Bindable s p.1 := by
  simp only [accepted, Bool.and_eq_true, List.all_eq_true] at h
  intro p hp
  exact bindable_of_kwOk (h.2 p hp)

/-- **(a) General soundness of the adequacy formula.**  If the pair of modes is adequate for a presence row,
    then for EVERY signature with that row (any number of parameters of each kind present) and EVERY call
    Python accepts (any number of arguments), the binder's output is exactly Python's binding: each argument
    converted by the routine of the parameter it binds to, in place.  Induction over the argument lists. -/
theorem mode_sound (pm : PosMode) (km : KwMode) (r : Row) (hadq : AdequateModes pm km r = true)
    (s : Sig) (hrow : s.presence = r) (c : Call α) (hacc : accepted s c = true) :
    applyModes pm km (layout s) c = some (expected s c) := by
  subst hrow
  simp only [AdequateModes, Bool.and_eq_true] at hadq
  have hL := layout_spec s
  simp only [applyModes, pos_sound pm s hL c.args hadq.1 (accepted_pos hacc),
    kw_sound km s hL c.kwargs hadq.2 (accepted_kw hacc), mkOut, expected]

end sound

/-! ## 3. The regenerated `_BINDING_CLS_MATRIX` -/

/-- The per-class `__call__` is the pair of its modes. -/
theorem apply_eq_modes {α : Type} (b : Binder) (L : Layout) (c : Call α) :
    b.apply L c = applyModes b.modes.1 b.modes.2 L c := by
  cases b <;> rfl

def bools : List Bool := [false, true]
def rowsFrom4 (a : Bool) (t : Bool × Bool × Bool × Bool) : Row := (a, t)
def rowsFrom3 (a : Bool) (t : Bool × Bool × Bool) : Bool × Bool × Bool × Bool := (a, t)
def rowsFrom2 (a : Bool) (t : Bool × Bool) : Bool × Bool × Bool := (a, t)
def pairUp (a b : Bool) : Bool × Bool := (a, b)
def all2 : List (Bool × Bool) := bools.flatMap fun a => bools.map (pairUp a)
def all3 : List (Bool × Bool × Bool) := bools.flatMap fun a => all2.map (rowsFrom2 a)
def all4 : List (Bool × Bool × Bool × Bool) := bools.flatMap fun a => all3.map (rowsFrom3 a)
/-- The 32 possible `_Truth` keys. -/
def allRows : List Row := bools.flatMap fun a => all4.map (rowsFrom4 a)

theorem allRows_complete : ∀ r : Row, r ∈ allRows := by
  intro ⟨a, b, c, d, e⟩
  cases a <;> cases b <;> cases c <;> cases d <;> cases e <;> decide

/-- The table has an entry for the key `r`, of a known class, whose modes are adequate for `r`. -/
def rowOk (m : Matrix) (r : Row) : Bool :=
  match select m r with
  | some b => AdequateModes b.modes.1 b.modes.2 r
  | none => false

/-- An entry of the table names a known class whose modes are adequate for the entry's own key. -/
def entryOk (e : Bool × Bool × Bool × Bool × Bool × String) : Bool :=
  match classOfName e.2.2.2.2.2 with
  | some b => AdequateModes b.modes.1 b.modes.2 (rowKey e)
  | none => false

/-- Decidable adequacy of a whole table: every one of the 32 keys is served adequately, and every entry
    of the table (also one shadowed by an earlier equal key) is adequate for its key. -/
def matrixAdequate (m : Matrix) : Bool := allRows.all (rowOk m) && m.all entryOk

/-- **(b)** The table regenerated from the live `_BINDING_CLS_MATRIX` is adequate: each of its 32 rows
    selects a binder class whose positional and keyword treatment is right for that row.
    Re-decided on every run against the regenerated `Gen/BindingMatrix.lean`. -/
theorem matrix_adequate : matrixAdequate Typelib.Gen.bindingMatrix = true := by decide

theorem matrix_has_32_rows : Typelib.Gen.bindingMatrix.length = 32 := by decide

theorem select_of_adequate {m : Matrix} (hm : matrixAdequate m = true) (r : Row) :
    ∃ b, select m r = some b ∧ AdequateModes b.modes.1 b.modes.2 r = true := by
  simp only [matrixAdequate, Bool.and_eq_true, List.all_eq_true] at hm
  have h := hm.1 r (allRows_complete r)
  unfold rowOk at h
  cases hs : select m r with
  | none => simp [hs] at h
  | some b => exact ⟨b, rfl, by simpa [hs] using h⟩

section correct
variable {α : Type}

/-- `bind_correct` for any table that passes the decidable adequacy check. -/
theorem bind_correct_of {m : Matrix} (hm : matrixAdequate m = true) (s : Sig) (c : Call α)
    (hacc : accepted s c = true) : bindWith m s c = some (expected s c) := by
  obtain ⟨b, hsel, hadq⟩ := select_of_adequate hm s.presence
  simp only [bindWith, truth_eq_presence, hsel]
  rw [apply_eq_modes]
  exact mode_sound _ _ _ hadq s rfl c hacc

/-- **(c) C10.**  For every signature (any number of parameters of every kind) and every call Python
    accepts, the binder `_get_binding` selects from the live matrix hands `f` exactly Python's binding of
    the call with every argument converted by the routine of the parameter it binds to: positional `i` by
    the `i`-th of po ++ pk, else by `*args`; keyword `k` by the pk / ko parameter `k`, else by `**kwargs`;
    same positions, same keyword names in the same order. -/
theorem bind_correct (s : Sig) (c : Call α) (hacc : accepted s c = true) :
    bindWith Typelib.Gen.bindingMatrix s c = some (expected s c) :=
  bind_correct_of matrix_adequate s c hacc

/-- `BoundRoutine.__call__` / `binding_wrapper` return `f(*bargs, **bkwargs)` (binding.py:91-92, 111-112):
    the result of `f` on the converted arguments is what the caller gets. -/
def callThrough {β : Type} (f : Out α → β) (m : Matrix) (s : Sig) (c : Call α) : Option β :=
  (bindWith m s c).map f

theorem wrap_correct {β : Type} (f : Out α → β) (s : Sig) (c : Call α) (hacc : accepted s c = true) :
    callThrough f Typelib.Gen.bindingMatrix s c = some (f (expected s c)) := by
  simp [callThrough, bind_correct s c hacc]

/-! ### What `expected` says, argument by argument -/

theorem expectedPos_get (s : Sig) : ∀ (xs : List α) (i j : Nat),
    (expectedPos s i xs)[j]? = (xs[j]?).map (specCell (posTarget s (i + j))) := by
  intro xs
  induction xs with
  | nil => intro i j; simp [expectedPos]
  | cons v vs ih =>
    intro i j
    cases j with
    | zero => simp [expectedPos]
    | succ j =>
      simp only [expectedPos, List.getElem?_cons_succ]
      rw [ih]
      congr 3
      omega

theorem expectedPos_length (s : Sig) : ∀ (xs : List α) (i : Nat), (expectedPos s i xs).length = xs.length := by
  intro xs
  induction xs with
  | nil => intro i; rfl
  | cons v vs ih => intro i; simp [expectedPos, ih]

theorem posTarget_some {s : Sig} {c : Call α} (hacc : accepted s c = true) {i : Nat} (hi : i < c.args.length) :
    ∃ p, posTarget s i = some p := by
  unfold posTarget
  cases h : (s.po ++ s.pk)[i]? with
  | some p => exact ⟨p, rfl⟩
  | none =>
    rcases accepted_pos hacc with hle | hva
    · have := List.getElem?_eq_none_iff.mp h
      simp only [List.length_append] at this
      omega
    · obtain ⟨q, hq⟩ := Option.isSome_iff_exists.mp hva
      exact ⟨q, by simp [hq]⟩

theorem kwTarget_some {s : Sig} {k : Name} (h : Bindable s k) : ∃ p, kwTarget s k = some p := by
  unfold kwTarget
  by_cases hm : k ∈ s.pk ++ s.ko
  · exact ⟨k, by simp [hm]⟩
  · rcases h with h | h
    · exact absurd h hm
    · obtain ⟨q, hq⟩ := Option.isSome_iff_exists.mp h
      exact ⟨q, by simp [hm, hq]⟩

/-- **(c), spelled out.**  For an accepted call the selected binder does not raise, keeps the number of
    positionals and the keyword names (in order), and the argument at every position / under every keyword is
    `conv p v`: the original value `v` converted by the routine of the parameter `p` Python binds it to. -/
theorem bind_correct_pointwise (s : Sig) (c : Call α) (hacc : accepted s c = true) :
    ∃ out, bindWith Typelib.Gen.bindingMatrix s c = some out
      ∧ out.args.length = c.args.length
      ∧ (∀ (i : Nat) v, c.args[i]? = some v → ∃ p, posTarget s i = some p ∧ out.args[i]? = some (Cell.conv p v))
      ∧ out.kwargs.map Prod.fst = c.kwargs.map Prod.fst
      ∧ (∀ (j : Nat) k v, c.kwargs[j]? = some (k, v) → ∃ p, kwTarget s k = some p ∧ out.kwargs[j]? = some (k, Cell.conv p v)) := by
  refine ⟨expected s c, bind_correct s c hacc, ?_, ?_, ?_, ?_⟩
  · exact expectedPos_length s c.args 0
  · intro i v hv
    have hi : i < c.args.length := (List.getElem?_eq_some_iff.mp hv).1
    obtain ⟨p, hp⟩ := posTarget_some hacc hi
    refine ⟨p, hp, ?_⟩
    simp only [expected]
    rw [expectedPos_get, hv, Nat.zero_add, hp]
    rfl
  · simp [expected, expectedKw, List.map_map, Function.comp_def, expectedKwEntry]
  · intro j k v hkv
    have hmem : (k, v) ∈ c.kwargs := List.mem_of_getElem? hkv
    obtain ⟨p, hp⟩ := kwTarget_some (accepted_kw hacc (k, v) hmem)
    refine ⟨p, hp, ?_⟩
    simp only [expected, expectedKw, List.getElem?_map, hkv, Option.map_some, expectedKwEntry, hp]
    rfl

/-- Unannotated parameters: their routine is the no-op (`unmarshaller(Parameter.empty)` is a
    `NoOpUnmarshaller`), so under any interpretation `um` of the routines that respects this, the value `f`
    receives for an argument bound to an unannotated parameter is the argument itself; for an annotated one it
    is `um p v`. -/
def evalEntry (um : Name → α → α) (ofName : Name → α) (e : Name × Cell α) : Name × α :=
  (e.1, Cell.eval um ofName e.2)

theorem bind_values (s : Sig) (c : Call α) (hacc : accepted s c = true) (um : Name → α → α) (ofName : Name → α)
    (hum : ∀ p ∈ s.unann, ∀ v, um p v = v) :
    ∃ out, bindWith Typelib.Gen.bindingMatrix s c = some out
      ∧ (∀ (i : Nat) v, c.args[i]? = some v → ∃ p, posTarget s i = some p ∧
            (out.args[i]?).map (Cell.eval um ofName) = some (um p v) ∧
            (p ∈ s.unann → (out.args[i]?).map (Cell.eval um ofName) = some v))
      ∧ (∀ (j : Nat) k v, c.kwargs[j]? = some (k, v) → ∃ p, kwTarget s k = some p ∧
            (out.kwargs[j]?).map (evalEntry um ofName) = some (k, um p v) ∧
            (p ∈ s.unann → (out.kwargs[j]?).map (evalEntry um ofName) = some (k, v))) := by
  obtain ⟨out, hout, _, hpos, _, hkw⟩ := bind_correct_pointwise s c hacc
  refine ⟨out, hout, ?_, ?_⟩
  · intro i v hv
    obtain ⟨p, hp, ho⟩ := hpos i v hv
    refine ⟨p, hp, by simp [ho, Cell.eval], fun hun => by simp [ho, Cell.eval, hum p hun v]⟩
  · intro j k v hv
    obtain ⟨p, hp, ho⟩ := hkw j k v hv
    refine ⟨p, hp, by simp [ho, Cell.eval, evalEntry], fun hun => by simp [ho, Cell.eval, evalEntry, hum p hun v]⟩

/-- The harness's view: an argument bound to an unannotated parameter is observed untouched, one bound to an
    annotated parameter `p` is observed converted by `p`'s routine — never the `else k` slip. -/
theorem observe_expected (s : Sig) (p : Name) (v : α) :
    observe s (specCell (some p) v) = if p ∈ s.unann then Obs.untouched else Obs.by p := rfl

/-! ### (d) Calls Python rejects -/

theorem posIndexed_length (L : Layout) : ∀ (xs : List α) (i : Nat), (posIndexed L i xs).length = xs.length := by
  intro xs
  induction xs with
  | nil => intro i; rfl
  | cons v vs ih => intro i; simp [posIndexed, ih]

theorem mapVar_length (u : Option Name) : ∀ (xs : List α) (cs : List (Cell α)),
    mapVar u xs = some cs → cs.length = xs.length := by
  intro xs
  induction xs with
  | nil => intro cs h; simp [mapVar] at h; subst h; rfl
  | cons v vs ih =>
    intro cs h
    simp only [mapVar] at h
    cases hc : callOpt u v with
    | none => simp [hc] at h
    | some c0 =>
      cases hr : mapVar u vs with
      | none => simp [hc, hr] at h
      | some cs0 =>
        simp only [hc, hr, Option.some.injEq] at h
        subst h
        simp [ih cs0 hr]

theorem mapVar_none_nil : ∀ (xs : List α) (cs : List (Cell α)), mapVar none xs = some cs → xs = [] := by
  intro xs cs h
  cases xs with
  | nil => rfl
  | cons v vs => simp [mapVar, callOpt] at h

theorem mapKw_names (f : Name → α → Option (Cell α)) : ∀ (kws : List (Name × α)) (out : List (Name × Cell α)),
    mapKw f kws = some out → out.map Prod.fst = kws.map Prod.fst := by
  intro kws
  induction kws with
  | nil => intro out h; simp [mapKw] at h; subst h; rfl
  | cons p ps ih =>
    intro out h
    simp only [mapKw] at h
    cases hc : f p.1 p.2 with
    | none => simp [hc] at h
    | some c0 =>
      cases hr : mapKw f ps with
      | none => simp [hc, hr] at h
      | some cs0 =>
        simp only [hc, hr, Option.some.injEq] at h
        subst h
        simp [ih cs0 hr]

theorem applyPos_length (pm : PosMode) {s : Sig} {L : Layout} (hL : LayoutSpec s L) (args : List α)
    (cs : List (Cell α)) (h : applyPos pm L args = some cs) : cs.length = args.length := by
  cases pm with
  | indexedAll => simp only [applyPos, posAll, Option.some.injEq] at h; subst h; exact posIndexed_length L args 0
  | indexedPrefix =>
    simp only [applyPos, posPrefix] at h
    cases hm : mapVar L.varpos (sliceFrom L.startpos args) with
    | none => simp [hm] at h
    | some vs =>
      simp only [hm, Option.some.injEq] at h
      subst h
      have hlen := mapVar_length _ _ _ hm
      cases hsp : L.startpos with
      | some n =>
        simp only [hsp, sliceFrom, List.length_drop] at hlen
        simp only [sliceTo, List.length_append, posIndexed_length, List.length_take, hlen]
        omega
      | none =>
        -- `startpos is None` only without `*args`: then `varpos is None` and a non-empty `args` raised
        have hva : s.va = none := by
          have := hL.startpos
          rw [hsp] at this
          cases hv : s.va with
          | none => rfl
          | some q => simp [hv] at this
        have hvp : L.varpos = none := by rw [hL.varpos, hva]
        rw [hvp, hsp] at hm
        have := mapVar_none_nil _ _ hm
        simp only [sliceFrom] at this
        subst this
        simp only [sliceFrom] at hlen
        simp [sliceTo, hsp, posIndexed, hlen]
  | allVar => exact mapVar_length _ _ _ h
  | raw => simp only [applyPos, posRaw, Option.some.injEq] at h; subst h; simp

theorem applyKw_names (km : KwMode) (L : Layout) (kws : List (Name × α)) (out : List (Name × Cell α))
    (h : applyKw km L kws = some out) : out.map Prod.fst = kws.map Prod.fst := by
  cases km <;> exact mapKw_names _ _ _ h

/-- **(d), shape.**  Whatever binder class is used for whatever signature and whatever call (accepted or
    not): either the binder itself raises `TypeError` (`none`), or `f` is called with the same number of
    positional arguments and the same keyword names in the same order. -/
theorem shape_preserved (b : Binder) (s : Sig) (c : Call α) (out : Out α)
    (h : b.apply (layout s) c = some out) :
    out.args.length = c.args.length ∧ out.kwargs.map Prod.fst = c.kwargs.map Prod.fst := by
  rw [apply_eq_modes] at h
  simp only [applyModes] at h
  cases ha : applyPos b.modes.1 (layout s) c.args with
  | none => simp [ha, mkOut] at h
  | some a =>
    cases hk : applyKw b.modes.2 (layout s) c.kwargs with
    | none => simp [ha, hk, mkOut] at h
    | some k =>
      simp only [ha, hk, mkOut, Option.some.injEq] at h
      subst h
      exact ⟨applyPos_length _ (layout_spec s) _ _ ha, applyKw_names _ _ _ _ hk⟩

/-- Python's acceptance of a call depends only on the number of positionals and the keyword names. -/
theorem accepted_congr {β : Type} (s : Sig) (c : Call α) (c' : Call β) (hlen : c'.args.length = c.args.length)
    (hkeys : c'.kwargs.map Prod.fst = c.kwargs.map Prod.fst) : accepted s c' = accepted s c := by
  have hall : c'.kwargs.all (kwEntryOk s c.args.length) = c.kwargs.all (kwEntryOk s c.args.length) := by
    have h1 : ∀ (γ : Type) (l : List (Name × γ)) (n : Nat),
        l.all (kwEntryOk s n) = (l.map Prod.fst).all (kwOk s n) := by
      intro γ l n
      induction l with
      | nil => rfl
      | cons p ps ih => simp [List.all_cons, kwEntryOk, ih]
    rw [h1, h1, hkeys]
  simp only [accepted, hlen, hkeys, hall]

/-- **(d) A call Python rejects stays rejected.**  For every signature, every call with
    `accepted = false` and every binder class (the one the matrix selects or any other): if the binder does
    not raise `TypeError` itself, the call `f` receives is rejected by Python as well — so `bind(f)(…)` /
    `wrap(f)(…)` raise `TypeError` either way.  (Missing required arguments: the model takes every parameter to
    be omissible; since the shape is unchanged, the same argument covers them.) -/
theorem rejected_stays_rejected (b : Binder) (s : Sig) (c : Call α) (hrej : accepted s c = false)
    (out : Out α) (h : b.apply (layout s) c = some out) : accepted s out.asCall = false := by
  obtain ⟨h1, h2⟩ := shape_preserved b s c out h
  rw [accepted_congr s c out.asCall h1 h2]
  exact hrej

/-- The same for the binder the live matrix selects. -/
theorem bind_rejected_stays_rejected (s : Sig) (c : Call α) (hrej : accepted s c = false)
    (out : Out α) (h : bindWith Typelib.Gen.bindingMatrix s c = some out) : accepted s out.asCall = false := by
  unfold bindWith at h
  cases hs : select Typelib.Gen.bindingMatrix (truth s) with
  | none => simp [hs] at h
  | some b => exact rejected_stays_rejected b s c hrej out (by simpa [hs] using h)

theorem specCell_not_key (t : Option Name) (v : α) : (specCell t v).isKey = false := by
  cases t <;> rfl

/-- The `… else k` slip of `PosKwdBinding`, `KwdArgsBinding`, `KwdBinding`, `PosOrKwdBinding` (the keyword
    name replaces the value) is unreachable for calls Python accepts. -/
theorem no_key_slip_when_accepted (s : Sig) (c : Call α) (hacc : accepted s c = true) (out : Out α)
    (h : bindWith Typelib.Gen.bindingMatrix s c = some out) :
    out.args.all notKeyCell = true ∧ out.kwargs.all notKeyEntry = true := by
  rw [bind_correct s c hacc] at h
  cases h
  constructor
  · simp only [expected, List.all_eq_true, notKeyCell, Bool.not_eq_true']
    intro x hx
    obtain ⟨j, hj⟩ := List.getElem?_of_mem hx
    rw [expectedPos_get] at hj
    cases hv : c.args[j]? with
    | none => simp [hv] at hj
    | some v => simp only [hv, Option.map_some, Option.some.injEq] at hj; rw [← hj]; exact specCell_not_key _ _
  · simp only [expected, expectedKw, List.all_eq_true, notKeyEntry, Bool.not_eq_true', List.mem_map]
    rintro e ⟨p, _, rfl⟩
    exact specCell_not_key _ _

end correct

/-! ## 4. The adequacy formula is exact: an inadequate pair mis-binds an accepted call -/

def nm (t : String) : Name := t.toList

/-- One parameter of each kind present in the row: `def f(a, /, b, *c, d, **k)` restricted to `r`. -/
def witnessSig (r : Row) : Sig :=
  { po := if r.1 then [nm "a"] else [],
    ko := if r.2.1 then [nm "d"] else [],
    va := if r.2.2.1 then some (nm "c") else none,
    vk := if r.2.2.2.1 then some (nm "k") else none,
    pk := if r.2.2.2.2 then [nm "b"] else [] }

/-- Everything positional that can be, one extra positional if `*args`, `d=`, one extra keyword if `**kwargs`. -/
def witnessCall1 (r : Row) : Call Nat :=
  { args := (if r.1 then [0] else []) ++ (if r.2.2.2.2 then [1] else []) ++ (if r.2.2.1 then [2] else []),
    kwargs := (if r.2.1 then [(nm "d", 3)] else []) ++ (if r.2.2.2.1 then [(nm "z", 4)] else []) }

/-- The same with the positional-or-keyword parameter passed by keyword. -/
def witnessCall2 (r : Row) : Call Nat :=
  { args := (if r.1 then [0] else []),
    kwargs := (if r.2.2.2.2 then [(nm "b", 1)] else []) ++ (if r.2.1 then [(nm "d", 3)] else []) ++
              (if r.2.2.2.1 then [(nm "z", 4)] else []) }

def misbinds (pm : PosMode) (km : KwMode) (s : Sig) (c : Call Nat) : Bool :=
  accepted s c && decide (applyModes pm km (layout s) c ≠ some (expected s c))

def exactAt (pm : PosMode) (km : KwMode) (r : Row) : Bool :=
  AdequateModes pm km r ||
    (misbinds pm km (witnessSig r) (witnessCall1 r) || misbinds pm km (witnessSig r) (witnessCall2 r))

def allPosModes : List PosMode := [.indexedAll, .indexedPrefix, .allVar, .raw]
def allKwModes : List KwMode := [.getOrVarkwd, .varkwdAll, .idxElseRaw, .idxElseKey, .raw]
def exactForKw (pm : PosMode) (km : KwMode) : Bool := allRows.all (exactAt pm km)
def exactForPos (pm : PosMode) : Bool := allKwModes.all (exactForKw pm)

theorem adequate_exact_table : allPosModes.all exactForPos = true := by decide

theorem witnessSig_presence : ∀ r : Row, (witnessSig r).presence = r ∧ (witnessSig r).wf = true := by
  intro ⟨a, b, c, d, e⟩
  cases a <;> cases b <;> cases c <;> cases d <;> cases e <;> decide

/-- **Completeness of `AdequateModes`.**  If the formula rejects a (positional mode, keyword mode) pair for a
    row, there is a well-formed signature with that row and a call Python accepts on which that pair does not
    produce Python's binding.  So `matrix_adequate` fails exactly when some selected class mis-binds. -/
theorem adequate_exact (pm : PosMode) (km : KwMode) (r : Row) (h : AdequateModes pm km r = false) :
    ∃ s : Sig, s.presence = r ∧ s.wf = true ∧ ∃ c : Call Nat, accepted s c = true ∧
      applyModes pm km (layout s) c ≠ some (expected s c) := by
  have ht := adequate_exact_table
  simp only [List.all_eq_true] at ht
  have hpm : pm ∈ allPosModes := by cases pm <;> decide
  have hkm : km ∈ allKwModes := by cases km <;> decide
  have h1 := ht pm hpm
  simp only [exactForPos, List.all_eq_true] at h1
  have h2 := h1 km hkm
  simp only [exactForKw, List.all_eq_true] at h2
  have h3 := h2 r (allRows_complete r)
  simp only [exactAt, h, Bool.false_or, Bool.or_eq_true, misbinds, Bool.and_eq_true, decide_eq_true_eq] at h3
  refine ⟨witnessSig r, (witnessSig_presence r).1, (witnessSig_presence r).2, ?_⟩
  rcases h3 with h3 | h3
  · exact ⟨witnessCall1 r, h3.1, h3.2⟩
  · exact ⟨witnessCall2 r, h3.1, h3.2⟩

/-! ## 5. Non-vacuity -/

/-- `def f(a: A, /, b, *c: C, d: D, **k: K)` — `b` unannotated. -/
def exSig : Sig :=
  { po := [nm "a"], pk := [nm "b"], va := some (nm "c"), ko := [nm "d"], vk := some (nm "k"), unann := [nm "b"] }

/-- `f(1, 2, 3, 4, d=5, a=6, c=7, z=8)`: keywords named like the positional-only and the `*args` parameter. -/
def exCall : Call Nat :=
  { args := [1, 2, 3, 4], kwargs := [(nm "d", 5), (nm "a", 6), (nm "c", 7), (nm "z", 8)] }

example : exSig.wf = true := by decide
example : truth exSig = (true, true, true, true, true) := by decide
example : select Typelib.Gen.bindingMatrix (truth exSig) = some .anyParamKind := by decide
example : accepted exSig exCall = true := by decide
/-- The model really computes the binding, and it is the expected one. -/
example : bindWith Typelib.Gen.bindingMatrix exSig exCall = some
    { args := [.conv (nm "a") 1, .conv (nm "b") 2, .conv (nm "c") 3, .conv (nm "c") 4],
      kwargs := [(nm "d", .conv (nm "d") 5), (nm "a", .conv (nm "k") 6), (nm "c", .conv (nm "k") 7),
                 (nm "z", .conv (nm "k") 8)] } := by decide
example : bindWith Typelib.Gen.bindingMatrix exSig exCall = some (expected exSig exCall) :=
  bind_correct exSig exCall (by decide)
/-- The argument of the unannotated `b` is observed untouched, the others by their own routine. -/
example : (expected exSig exCall).args.map (observe exSig) =
    [.by (nm "a"), .untouched, .by (nm "c"), .by (nm "c")] := by decide

/-- `f(1, b=2, d=3)`: the positional-or-keyword parameter passed by keyword. -/
def exCallKw : Call Nat := { args := [1], kwargs := [(nm "b", 2), (nm "d", 3)] }
example : accepted exSig exCallKw = true := by decide
example : bindWith Typelib.Gen.bindingMatrix exSig exCallKw = some
    { args := [.conv (nm "a") 1], kwargs := [(nm "b", .conv (nm "b") 2), (nm "d", .conv (nm "d") 3)] } := by decide

/-- `f(1, 2, b=3)`: `b` bound twice — Python rejects; the binder keeps the shape, so `f` raises. -/
def exCallDup : Call Nat := { args := [1, 2], kwargs := [(nm "b", 3)] }
example : accepted exSig exCallDup = false := by decide
example : bindWith Typelib.Gen.bindingMatrix exSig exCallDup = some
    { args := [.conv (nm "a") 1, .conv (nm "b") 2], kwargs := [(nm "b", .conv (nm "b") 3)] } := by decide
example (out : Out Nat) (h : bindWith Typelib.Gen.bindingMatrix exSig exCallDup = some out) :
    accepted exSig out.asCall = false :=
  bind_rejected_stays_rejected exSig exCallDup (by decide) out h

/-- `def g(a: A, /, *, d: D)` ↦ `PosKwdBinding`; `g(1, x=2)` is rejected by Python; the binder passes
    `x='x'` (the `else k` slip) — visible only with `BoundRoutine.binding` directly, `g` raises anyway. -/
def exSigG : Sig := { po := [nm "a"], ko := [nm "d"] }
def exCallG : Call Nat := { args := [1], kwargs := [(nm "x", 2)] }
example : select Typelib.Gen.bindingMatrix (truth exSigG) = some .posKwd := by decide
example : accepted exSigG exCallG = false := by decide
example : bindWith Typelib.Gen.bindingMatrix exSigG exCallG = some
    { args := [.conv (nm "a") 1], kwargs := [(nm "x", .key (nm "x"))] } := by decide

/-- `def h(b: B, *c: C)`: the class this row had before commit 67daf6b (`PosArgsBinding`) leaves `h(b=1)`
    unconverted; the formula rejects it, the class the row has now (`PosKwdArgsBinding`) is adequate. -/
def exSigH : Sig := { pk := [nm "b"], va := some (nm "c") }
def exCallH : Call Nat := { args := [], kwargs := [(nm "b", 1)] }
example : AdequateModes Binder.posArgs.modes.1 Binder.posArgs.modes.2 exSigH.presence = false := by decide
example : accepted exSigH exCallH = true := by decide
example : Binder.posArgs.apply (layout exSigH) exCallH = some { args := [], kwargs := [(nm "b", .raw 1)] } := by decide
example : expected exSigH exCallH = { args := [], kwargs := [(nm "b", .conv (nm "b") 1)] } := by decide
example : select Typelib.Gen.bindingMatrix exSigH.presence = some .posKwdArgs := by decide

/-- A binder that needs `*args` on a signature without one raises by itself (`None(v)`). -/
example : Binder.args.apply (layout exSigG) exCallG = none := by decide

end Typelib.C10
