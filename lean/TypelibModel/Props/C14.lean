/-
  C14 — Text-like inputs are interchangeable.

  In the model a text value is `.str s` or `.text c s` (carrier c ∈ bytes, bytearray, memoryview r/o,
  memoryview writable, holding the UTF-8 of s).  `decode` and `load` forget the carrier; every routine
  starts with one of them; hence unmarshalling never distinguishes carriers — for every annotation
  without bytes-like members and without `Any` (which passes its input through by contract), every
  carrier and every string.  `load` is the identity on non-text values.
-/
import TypelibModel.Lemmas.WF
import TypelibModel.Lemmas.JsonRT
import TypelibModel.Model.Leaf
namespace Typelib.C14
open Typelib

theorem decode_carrier (c : Carrier) (s : Str) : decode (.text c s) = .str s := rfl

theorem load_carrier (env : Env) (L : Leaves) (c : Carrier) (s : Str) :
    load env L (.text c s) = load env L (.str s) := rfl

/-- `serdes.load` returns non-text inputs untouched. -/
theorem load_nontext (env : Env) (L : Leaves) (v : Val) (h : isText env v = false) : load env L v = .ok v := by
  cases v <;> simp [isText] at h <;> simp [load, h]

mutual
  /-- No bytes-like scalar and no `Any` anywhere in the annotation; literal members primitive. -/
  def textTy : Ty → Bool
    | .scalar s => s != .bytes
    | .none => true
    | .any => false
    | .enum _ => true
    | .literal vs => vs.all isPrim
    | .coll _ e => textTy e
    | .tuple es => textTys es
    | .dict k e => textTy k && textTy e
    | .union ms => textTys ms
    | .cls _ => true
    | .wrap _ t => textTy t
  termination_by structural t => t
  def textTys : List Ty → Bool
    | [] => true
    | t :: ts => textTy t && textTys ts
  termination_by structural ts => ts
end

theorem textTys_mem : ∀ {ts : List Ty}, textTys ts = true → ∀ t ∈ ts, textTy t = true := by
  intro ts
  induction ts with
  | nil => intro _ t ht; cases ht
  | cons a as ih =>
    intro h t ht
    simp only [textTys, Bool.and_eq_true] at h
    cases ht with
    | head => exact h.1
    | tail _ hm => exact ih h.2 t hm

theorem firstOk_congr (F : Ty → Val → R Val) (x y : Val) :
    ∀ ms : List Ty, (∀ m ∈ ms, F m x = F m y) → firstOk (ms.map F) x = firstOk (ms.map F) y := by
  intro ms
  induction ms with
  | nil => intro _; rfl
  | cons m ms ih =>
    intro h
    simp only [List.map_cons, firstOk, h m (by simp), ih (fun m' hm' => h m' (by simp [hm']))]

theorem pyMem_text_false (env : Env) (c : Carrier) (s : Str) :
    ∀ vs : List Val, vs.all isPrim = true → pyMem? env (.text c s) vs = some false := by
  intro vs
  induction vs with
  | nil => intro _; rfl
  | cons w ws ih =>
    intro h
    simp only [List.all_cons, Bool.and_eq_true] at h
    have : pyEq? env w (.text c s) = some false := by
      cases w <;> simp [isPrim] at h <;> simp [pyEq?, intVal?, BEq.beq, Val.beq]
    simp [pyMem?, this, ih h.2]

/-- **Carrier independence of every unmarshaller**, given it for the scalar leaves. -/
theorem um_carrier (env : Env) (L : Leaves)
    (hleaf : ∀ sc c s, sc ≠ .bytes → L.um sc (.text c s) = L.um sc (.str s)) (c : Carrier) (s : Str) :
    ∀ n t, textTy t = true → um env L n t (.text c s) = um env L n t (.str s) := by
  intro n
  induction n with
  | zero => intro t _; rfl
  | succ n ih =>
    intro t ht
    cases t with
    | scalar sc =>
      simp only [textTy, bne_iff_ne] at ht
      simp [um, hleaf sc c s ht]
    | none => simp [um, umNone, decode]
    | any => simp [textTy] at ht
    | enum e => simp only [um]; rfl
    | literal vs =>
      simp only [textTy] at ht
      simp only [um, pyMem_text_false env c s vs ht, decode, load]
      cases pyMem? env (.str s) vs with
      | none => rfl
      | some b => cases b <;> rfl
    | coll k e => simp [um, load]
    | tuple es => simp [um, load]
    | dict k e => simp [um, load]
    | union ms =>
      simp only [textTy] at ht
      simp only [um]
      apply firstOk_congr
      intro m hm
      have hm' : textTy m = true := by
        unfold unionOrder at hm
        split at hm
        · cases hm with
          | head => rfl
          | tail _ h => exact textTys_mem ht m (List.mem_filter.mp h).1
        · exact textTys_mem ht m hm
      exact ih m hm'
    | cls cl => simp [um, load]
    | wrap w t' =>
      simp only [textTy] at ht
      simp [um, ih t' ht]

/-- The executable leaves never look at the carrier. -/
theorem pyLeaves_carrier (env : Env) (today : Int) (sc : Scalar) (c : Carrier) (s : Str) (h : sc ≠ .bytes) :
    (pyLeaves env today).um sc (.text c s) = (pyLeaves env today).um sc (.str s) := by
  cases sc <;> first | exact absurd rfl h | rfl

/-- **C14 for the executable model**: all five carriers give the same outcome. -/
theorem unmarshal_carrier (env : Env) (today : Int) (c : Carrier) (s : Str) (n : Nat) (t : Ty)
    (ht : textTy t = true) :
    um env (pyLeaves env today) n t (.text c s) = um env (pyLeaves env today) n t (.str s) :=
  um_carrier env _ (fun sc c s h => pyLeaves_carrier env today sc c s h) c s n t ht

/-- Non-vacuity: JSON text in a writable memoryview into `list[int]`, evaluated by the model. -/
example : um [] (pyLeaves []) 5 (.coll .list (.scalar .int)) (.text .mviewW "[1]".toList) = .ok (.list [.int 1]) := by rfl

/-! ### JSON text of a wire value is equivalent to the decoded value

`plainWire w` (Model/JsonText.lean) is the printer's domain inside the executable `strload` fragment:
None / bool / 64-bit int / str without control characters other than `\n \r \t \b \f` / lists / dicts
with pairwise distinct `str` keys; `renderJson w` is `json.dumps(w, separators=(",", ":"),
ensure_ascii=False)` and `renderJsonSp w` is `json.dumps(w, ensure_ascii=False)`.
`Lemmas/JsonRT.lean` proves that the modelled `strload` reads both back. -/

/-- `serdes.strload` (as the routines call it) returns what a JSON decoder returns for JSON text. -/
theorem pySl_render (w : Val) (hw : plainWire w = true) : pySl (renderJson w) = .ok w := by
  simp [pySl, strload_render w hw]

theorem pySl_renderSp (w : Val) (hw : plainWire w = true) : pySl (renderJsonSp w) = .ok w := by
  simp [pySl, strload_renderSp w hw]

/-- The inputs that carry the JSON text of `w`: a `str` or any of the four bytes-like carriers, in
    either spelling of the separators. -/
inductive JsonTextOf (w : Val) : Val → Prop
  | str : JsonTextOf w (.str (renderJson w))
  | carrier (c : Carrier) : JsonTextOf w (.text c (renderJson w))
  | strSp : JsonTextOf w (.str (renderJsonSp w))
  | carrierSp (c : Carrier) : JsonTextOf w (.text c (renderJsonSp w))

/-- **`serdes.load` of the JSON text of a wire value is the decoded value**, for every carrier. -/
theorem load_json_text (env : Env) (today : Int) (w x : Val) (hw : plainWire w = true)
    (hx : JsonTextOf w x) : load env (pyLeaves env today) x = .ok w := by
  cases hx with
  | str => exact pySl_render w hw
  | carrier c => exact pySl_render w hw
  | strSp => exact pySl_renderSp w hw
  | carrierSp c => exact pySl_renderSp w hw

/-- A wire value that is not itself a string is not text: `load` returns it untouched. -/
theorem load_plain_nonstr (env : Env) (L : Leaves) (w : Val) (hw : plainWire w = true)
    (hns : ∀ s, w ≠ .str s) : load env L w = .ok w := by
  cases w with
  | str s => exact absurd rfl (hns s)
  | none | bool _ | int _ | list _ | dict _ => rfl
  | _ => simp [plainWire] at hw

/-- … hence `load(text of w) = load(w)` for every plain wire value `w` other than a string (for a
    string `w`, `load w` decodes `w` itself once more). -/
theorem load_json_text_eq (env : Env) (today : Int) (w x : Val) (hw : plainWire w = true)
    (hns : ∀ s, w ≠ .str s) (hx : JsonTextOf w x) :
    load env (pyLeaves env today) x = load env (pyLeaves env today) w := by
  rw [load_json_text env today w x hw hx, load_plain_nonstr env _ w hw hns]

/-- The annotations whose routine begins with `serdes.load`: collections (list / set / frozenset /
    deque / `tuple[T, ...]`), fixed tuples, mappings, structured classes, and wrappers of them. -/
def container : Ty → Bool
  | .coll _ _ | .tuple _ | .dict _ _ | .cls _ => true
  | .wrap _ t => container t
  | _ => false

mutual
  /-- … and unions / Optionals of them (a `None` member rejects a container and its text alike). -/
  def jsonTextTy : Ty → Bool
    | .coll _ _ | .tuple _ | .dict _ _ | .cls _ => true
    | .none => true
    | .wrap _ t => jsonTextTy t
    | .union ms => jsonTextTys ms
    | _ => false
  termination_by structural t => t
  def jsonTextTys : List Ty → Bool
    | [] => true
    | t :: ts => jsonTextTy t && jsonTextTys ts
  termination_by structural ts => ts
end

theorem jsonTextTys_mem : ∀ {ts : List Ty}, jsonTextTys ts = true → ∀ t ∈ ts, jsonTextTy t = true := by
  intro ts
  induction ts with
  | nil => intro _ t ht; cases ht
  | cons a as ih =>
    intro h t ht
    simp only [jsonTextTys, Bool.and_eq_true] at h
    cases ht with
    | head => exact h.1
    | tail _ hm => exact ih h.2 t hm

theorem container_jsonTextTy : ∀ t : Ty, container t = true → jsonTextTy t = true
  | .wrap _ t, h => by
    simp only [container] at h
    simp only [jsonTextTy]
    exact container_jsonTextTy t h
  | .coll _ _, _ => by simp [jsonTextTy]
  | .tuple _, _ => by simp [jsonTextTy]
  | .dict _ _, _ => by simp [jsonTextTy]
  | .cls _, _ => by simp [jsonTextTy]

/-- Two inputs that `load` maps to the same outcome (and that `NoneTypeUnmarshaller` treats alike)
    are indistinguishable for every routine that begins with `load`. -/
theorem um_congr_load (env : Env) (L : Leaves) (x y : Val) (hl : load env L x = load env L y)
    (hn : umNone x = umNone y) :
    ∀ n t, jsonTextTy t = true → um env L n t x = um env L n t y := by
  intro n
  induction n with
  | zero => intro t _; rfl
  | succ n ih =>
    intro t ht
    cases t with
    | coll k e => simp only [um, hl]
    | tuple es => simp only [um, hl]
    | dict k e => simp only [um, hl]
    | cls c => simp only [um, hl]
    | none => simp only [um, hn]
    | wrap w t' =>
      simp only [jsonTextTy] at ht
      simp only [um]
      exact ih t' ht
    | union ms =>
      simp only [jsonTextTy] at ht
      simp only [um]
      apply firstOk_congr
      intro m hm
      have hm' : jsonTextTy m = true := by
        unfold unionOrder at hm
        split at hm
        · cases hm with
          | head => rfl
          | tail _ h => exact jsonTextTys_mem ht m (List.mem_filter.mp h).1
        · exact jsonTextTys_mem ht m hm
      exact ih m hm'
    | _ => simp [jsonTextTy] at ht

/-- The same for the union-free container annotations, without the clause on `None`. -/
theorem um_congr_load_container (env : Env) (L : Leaves) (x y : Val) (hl : load env L x = load env L y) :
    ∀ n t, container t = true → um env L n t x = um env L n t y := by
  intro n
  induction n with
  | zero => intro t _; rfl
  | succ n ih =>
    intro t ht
    cases t with
    | coll k e => simp only [um, hl]
    | tuple es => simp only [um, hl]
    | dict k e => simp only [um, hl]
    | cls c => simp only [um, hl]
    | wrap w t' =>
      simp only [container] at ht
      simp only [um]
      exact ih t' ht
    | _ => simp [container] at ht

/-- **C14, text equivalence.**  For collection, tuple, mapping and structured `T` (and wrappers of
    them), passing the JSON text of a plain wire value `w` — as `str` or in any bytes-like carrier,
    compact or with Python's default separators — is equivalent to passing `w` itself, for every
    `w` that is not itself a string (None, bool, int, list, dict). -/
theorem um_json_text (env : Env) (today : Int) (w x : Val) (hw : plainWire w = true)
    (hns : ∀ s, w ≠ .str s) (hx : JsonTextOf w x) (n : Nat) (t : Ty) (ht : container t = true) :
    um env (pyLeaves env today) n t x = um env (pyLeaves env today) n t w :=
  um_congr_load_container env _ x w (load_json_text_eq env today w x hw hns hx) n t ht

/-- A list or dict wire value. -/
def isContainerWire : Val → Bool
  | .list _ | .dict _ => true
  | _ => false

/-- … and for unions / Optionals of such annotations when `w` is a list or a dict (the text `null`
    is *not* equivalent to `None` under `Optional[list[int]]`: the `None` routine does not decode text
    and the list routine rejects None, whereas None itself is accepted — see the example below). -/
theorem um_json_text_union (env : Env) (today : Int) (w x : Val) (hw : plainWire w = true)
    (hc : isContainerWire w = true) (hx : JsonTextOf w x) (n : Nat) (t : Ty) (ht : jsonTextTy t = true) :
    um env (pyLeaves env today) n t x = um env (pyLeaves env today) n t w := by
  have hns : ∀ s, w ≠ .str s := by intro s h; subst h; simp [isContainerWire] at hc
  have hn : umNone x = umNone w := by
    cases hx <;> cases w <;> simp [isContainerWire] at hc <;> rfl
  exact um_congr_load env _ x w (load_json_text_eq env today w x hw hns hx) hn n t ht

/-- Non-vacuity: the hypotheses hold for `{"a":[1,null]}` under `dict[str, list[int | None]]` … -/
example : plainWire (.dict [(.str ['a'], .list [.int 1, .none])]) = true
    ∧ container (.dict (.scalar .str) (.coll .list (.union [.scalar .int, .none]))) = true := by decide
/-- … and for `[1]` in a writable memoryview under `list[int]` both sides evaluate to `[1]`. -/
example : um [] (pyLeaves []) 5 (.coll .list (.scalar .int)) (.text .mviewW (renderJson (.list [.int 1])))
    = .ok (.list [.int 1]) := by
  rw [um_json_text [] 0 (.list [.int 1]) _ (by decide) (by intro s h; cases h) (.carrier .mviewW) 5 _ rfl]
  rfl

/-- What holds outside `container`: a scalar routine decodes text but does not `load` it, so the
    text of a wire value is *not* equivalent to the value (`int("[1]")` is a ValueError,
    `unmarshal(int, [1])` is 1); and the text `null` is not `None` for an Optional. -/
example : um [] (pyLeaves []) 3 (.scalar .int) (.str (renderJson (.list [.int 1]))) = .error .value
    ∧ um [] (pyLeaves []) 3 (.scalar .int) (.list [.int 1]) = .ok (.int 1) := ⟨rfl, rfl⟩
example : um [] (pyLeaves []) 3 (.union [.coll .list (.scalar .int), .none]) (.str (renderJson .none)) = .error .value
    ∧ um [] (pyLeaves []) 3 (.union [.coll .list (.scalar .int), .none]) .none = .ok .none := ⟨rfl, rfl⟩

end Typelib.C14
