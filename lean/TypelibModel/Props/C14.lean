/-
  C14 — Text-like inputs are interchangeable.

  In the model a text value is `.str s` or `.text c s` (carrier c ∈ bytes, bytearray, memoryview r/o,
  memoryview writable, holding the UTF-8 of s).  `decode` and `load` forget the carrier; every routine
  starts with one of them; hence unmarshalling never distinguishes carriers — for every annotation
  without bytes-like members and without `Any` (which passes its input through by contract), every
  carrier and every string.  `load` is the identity on non-text values.
-/
import TypelibModel.Lemmas.WF
import TypelibModel.Model.Leaf
namespace Typelib.C14
open Typelib

theorem decode_carrier (c : Carrier) (s : Str) : decode (.text c s) = .str s := rfl

theorem load_carrier (env : Env) (L : Leaves) (c : Carrier) (s : Str) :
    load env L (.text c s) = load env L (.str s) := rfl

/-- `serdes.load` returns non-text inputs untouched. -/
theorem load_nontext (env : Env) (L : Leaves) (v : Val) (h : isText env v = false) : load env L v = .ok v := by
  cases v <;> simp [isText] at h <;> simp [load, h]

mutual
  /-- No bytes-like scalar and no `Any` anywhere in the annotation; literal members primitive. -/
  def textTy : Ty → Bool
    | .scalar s => s != .bytes
    | .none => true
    | .any => false
    | .enum _ => true
    | .literal vs => vs.all isPrim
    | .coll _ e => textTy e
    | .tuple es => textTys es
    | .dict k e => textTy k && textTy e
    | .union ms => textTys ms
    | .cls _ => true
    | .wrap _ t => textTy t
  termination_by structural t => t
  def textTys : List Ty → Bool
    | [] => true
    | t :: ts => textTy t && textTys ts
  termination_by structural ts => ts
end

theorem textTys_mem : ∀ {ts : List Ty}, textTys ts = true → ∀ t ∈ ts, textTy t = true := by
  intro ts
  induction ts with
  | nil => intro _ t ht; cases ht
  | cons a as ih =>
    intro h t ht
    simp only [textTys, Bool.and_eq_true] at h
    cases ht with
    | head => exact h.1
    | tail _ hm => exact ih h.2 t hm

theorem firstOk_congr (F : Ty → Val → R Val) (x y : Val) :
    ∀ ms : List Ty, (∀ m ∈ ms, F m x = F m y) → firstOk (ms.map F) x = firstOk (ms.map F) y := by
  intro ms
  induction ms with
  | nil => intro _; rfl
  | cons m ms ih =>
    intro h
    simp only [List.map_cons, firstOk, h m (by simp), ih (fun m' hm' => h m' (by simp [hm']))]

theorem pyMem_text_false (env : Env) (c : Carrier) (s : Str) :
    ∀ vs : List Val, vs.all isPrim = true → pyMem? env (.text c s) vs = some false := by
  intro vs
  induction vs with
  | nil => intro _; rfl
  | cons w ws ih =>
    intro h
    simp only [List.all_cons, Bool.and_eq_true] at h
    have : pyEq? env w (.text c s) = some false := by
      cases w <;> simp [isPrim] at h <;> simp [pyEq?, intVal?, BEq.beq, Val.beq]
    simp [pyMem?, this, ih h.2]

/-- **Carrier independence of every unmarshaller**, given it for the scalar leaves. -/
theorem um_carrier (env : Env) (L : Leaves)
    (hleaf : ∀ sc c s, sc ≠ .bytes → L.um sc (.text c s) = L.um sc (.str s)) (c : Carrier) (s : Str) :
    ∀ n t, textTy t = true → um env L n t (.text c s) = um env L n t (.str s) := by
  intro n
  induction n with
  | zero => intro t _; rfl
  | succ n ih =>
    intro t ht
    cases t with
    | scalar sc =>
      simp only [textTy, bne_iff_ne] at ht
      simp [um, hleaf sc c s ht]
    | none => simp [um, umNone, decode]
    | any => simp [textTy] at ht
    | enum e => simp only [um]; rfl
    | literal vs =>
      simp only [textTy] at ht
      simp only [um, pyMem_text_false env c s vs ht, decode, load]
      cases pyMem? env (.str s) vs with
      | none => rfl
      | some b => cases b <;> rfl
    | coll k e => simp [um, load]
    | tuple es => simp [um, load]
    | dict k e => simp [um, load]
    | union ms =>
      simp only [textTy] at ht
      simp only [um]
      apply firstOk_congr
      intro m hm
      have hm' : textTy m = true := by
        unfold unionOrder at hm
        split at hm
        · cases hm with
          | head => rfl
          | tail _ h => exact textTys_mem ht m (List.mem_filter.mp h).1
        · exact textTys_mem ht m hm
      exact ih m hm'
    | cls cl => simp [um, load]
    | wrap w t' =>
      simp only [textTy] at ht
      simp [um, ih t' ht]

/-- The executable leaves never look at the carrier. -/
theorem pyLeaves_carrier (env : Env) (today : Int) (sc : Scalar) (c : Carrier) (s : Str) (h : sc ≠ .bytes) :
    (pyLeaves env today).um sc (.text c s) = (pyLeaves env today).um sc (.str s) := by
  cases sc <;> first | exact absurd rfl h | rfl

/-- **C14 for the executable model**: all five carriers give the same outcome. -/
theorem unmarshal_carrier (env : Env) (today : Int) (c : Carrier) (s : Str) (n : Nat) (t : Ty)
    (ht : textTy t = true) :
    um env (pyLeaves env today) n t (.text c s) = um env (pyLeaves env today) n t (.str s) :=
  um_carrier env _ (fun sc c s h => pyLeaves_carrier env today sc c s h) c s n t ht

/-- Non-vacuity: JSON text in a writable memoryview into `list[int]`, evaluated by the model. -/
example : um [] (pyLeaves []) 5 (.coll .list (.scalar .int)) (.text .mviewW "[1]".toList) = .ok (.list [.int 1]) := by rfl

end Typelib.C14
