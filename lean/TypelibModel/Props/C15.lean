/-
  C15 — Every valid annotation yields working routines.

  Construction itself (graph → context → dispatch → routine constructors) is certified per program by
  the check (each generated annotation of the extended universe U⁺ is built on the real library, and the
  regenerated dispatch tables are shown total on all annotation kinds: `Dispatch.dispatch_total`).  What
  is proved here about the model is the *pass-through* clause: a position whose type cannot be resolved
  (`Any`, `object`, a free TypeVar, a Callable, `type[X]` — all `.any` in the model) returns its input
  untouched, at the root and under every composite constructor, for every input.
-/
import TypelibModel.Props.C13
import TypelibModel.Props.Dispatch
namespace Typelib.C15
open Typelib

theorem any_unmarshal (env : Env) (L : Leaves) (n : Nat) (x : Val) : um env L (n + 1) .any x = .ok x := rfl
theorem any_marshal (env : Env) (L : Leaves) (n : Nat) (v : Val) : mar env L (n + 1) .any v = .ok v := rfl

/-- Members at an unresolvable position pass through a collection routine: the result holds exactly
    the input's elements. -/
theorem coll_any_passthrough (env : Env) (L : Leaves) (n : Nat) (k : Coll) (v : Val) (xs : List Val)
    (h : collOf k v = some xs) : um env L (n + 2) (.coll k .any) v = .ok v := by
  obtain ⟨hv, hit⟩ := collOf_some h
  have hm : mapR (fun x : Val => (Except.ok x : R Val)) xs = .ok xs := C13.mapR_id _ xs (fun x _ => rfl)
  have hl := C13.load_coll env L h
  have hi := hit env
  simp only [um, hl, Except.bind, hi, hm]
  rw [hv]

/-- … and through a mapping routine (values at an unresolvable position, string keys). -/
theorem dict_any_passthrough (env : Env) (L : Leaves) (n : Nat) (kvs : List (Val × Val))
    (hk : ∀ kv ∈ kvs, ∃ s, kv.1 = .str s) (hL : ∀ s, L.um .str (.str s) = .ok (.str s)) :
    um env L (n + 2) (.dict (.scalar .str) .any) (.dict kvs) = .ok (.dict kvs) := by
  have : mapR (fun kv => convPair (fun x => L.um .str x) (fun x : Val => (Except.ok x : R Val)) (.ok kv)) kvs = .ok kvs := by
    apply C13.mapR_id
    intro kv hkv
    obtain ⟨s, hs⟩ := hk kv hkv
    obtain ⟨a, b⟩ := kv
    simp only at hs
    subst hs
    simp [convPair, hL s, hashable]
  simp only [um, load, Except.bind, iteritems]
  rw [mapR_map, this]

/-- `Optional[Any]`: None first, anything else passes through the unresolvable member. -/
theorem optional_any (env : Env) (L : Leaves) (n : Nat) (x : Val) :
    um env L (n + 2) (.union [.any, .none]) x = .ok x := by
  by_cases hx : x = .none
  · subst hx; rfl
  · have : umNone x = .error .value := by
      unfold umNone
      cases hd : decode x <;> first | rfl | exact absurd (C13.decode_none hd) hx
    simp [um, unionOrder, nullable, Ty.isNone, firstOk, this, Err.isRejection]

example : um [] { sl := fun s => .ok (.str s), um := fun _ v => .ok v, mar := fun _ v => .ok v } 3
    (.coll .list .any) (.list [.opaque ['o'], .int 1]) = .ok (.list [.opaque ['o'], .int 1]) := by rfl

end Typelib.C15
