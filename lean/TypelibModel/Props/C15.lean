/-
  C15 — Every valid annotation yields working routines.

  Construction itself (graph → context → dispatch → routine constructors) is certified per program by
  the check (each generated annotation of the extended universe U⁺ is built on the real library, and the
  regenerated dispatch tables are shown total on all annotation kinds: `Dispatch.dispatch_total`).  What
  is proved here about the model is the *pass-through* clause: a position whose type cannot be resolved
  (`Any`, `object`, a free TypeVar, a Callable, `type[X]` — all `.any` in the model) returns its input
  untouched, at the root and under every composite constructor, for every input.
-/
import TypelibModel.Props.C13
import TypelibModel.Props.Dispatch
import TypelibModel.Props.C05
namespace Typelib.C15
open Typelib

theorem any_unmarshal (env : Env) (L : Leaves) (n : Nat) (x : Val) : um env L (n + 1) .any x = .ok x := rfl
theorem any_marshal (env : Env) (L : Leaves) (n : Nat) (v : Val) : mar env L (n + 1) .any v = .ok v := rfl

/-- Members at an unresolvable position pass through a collection routine: the result holds exactly
    the input's elements. -/
theorem coll_any_passthrough (env : Env) (L : Leaves) (n : Nat) (k : Coll) (v : Val) (xs : List Val)
    (h : collOf k v = some xs) : um env L (n + 2) (.coll k .any) v = .ok v := by
  obtain ⟨hv, hit⟩ := collOf_some h
  have hm : mapR (fun x : Val => (Except.ok x : R Val)) xs = .ok xs := C13.mapR_id _ xs (fun x _ => rfl)
  have hl := C13.load_coll env L h
  have hi := hit env
  simp only [um, hl, Except.bind, hi, hm]
  rw [hv]

/-- … and through a mapping routine (values at an unresolvable position, string keys). -/
theorem dict_any_passthrough (env : Env) (L : Leaves) (n : Nat) (kvs : List (Val × Val))
    (hk : ∀ kv ∈ kvs, ∃ s, kv.1 = .str s) (hL : ∀ s, L.um .str (.str s) = .ok (.str s)) :
    um env L (n + 2) (.dict (.scalar .str) .any) (.dict kvs) = .ok (.dict kvs) := by
  have : mapR (fun kv => convPair (fun x => L.um .str x) (fun x : Val => (Except.ok x : R Val)) (.ok kv)) kvs = .ok kvs := by
    apply C13.mapR_id
    intro kv hkv
    obtain ⟨s, hs⟩ := hk kv hkv
    obtain ⟨a, b⟩ := kv
    simp only at hs
    subst hs
    simp [convPair, hL s, hashable]
  simp only [um, load, Except.bind, iteritems]
  rw [mapR_map, this]

/-- `Optional[Any]`: None first, anything else passes through the unresolvable member. -/
theorem optional_any (env : Env) (L : Leaves) (n : Nat) (x : Val) :
    um env L (n + 2) (.union [.any, .none]) x = .ok x := by
  by_cases hx : x = .none
  · subst hx; rfl
  · have : umNone x = .error .value := by
      unfold umNone
      cases hd : decode x <;> first | rfl | exact absurd (C13.decode_none hd) hx
    simp [um, unionOrder, nullable, Ty.isNone, firstOk, this, Err.isRejection]

example : um [] { sl := fun s => .ok (.str s), um := fun _ v => .ok v, mar := fun _ v => .ok v } 3
    (.coll .list .any) (.list [.opaque ['o'], .int 1]) = .ok (.list [.opaque ['o'], .int 1]) := by rfl

/-! ### Construction, as a theorem about the model of the routine compiler (Model/Compile.lean)

  `compileU` / `compileM` model `typelib.unmarshaller` / `typelib.marshaller` (handler choice per annotation
  kind re-decided against the regenerated dispatch tables: `C05.compile_dispatch_*`; tied to the real trees by
  the `compile:*` correspondence of `./check C05`).  Side conditions, both decidable: every class the
  annotation or a field annotation mentions is declared and Literal members are primitives (`compilable`,
  `compilableEnv`; `Any` positions, arbitrary unions, wrappers and cycles included). -/

/-- **Every annotation of U⁺ yields working routines**: both compilers return a tree the verified validator
    accepts for the (wrapper-erased) annotation — no node of an unrecognised class, every member served by the
    routine of its own annotation. -/
theorem compile_total (env : Env) (t : Ty) (hE : compilableEnv env = true) (ht : compilable env t = true) :
    (adequateU (eraseEnv env) (erase t) (compileU env t) = true ∧ (compileU env t).hasUnknown = false)
    ∧ (adequateM (eraseEnv env) (erase t) (compileM env t) = true ∧ (compileM env t).hasUnknown = false) :=
  ⟨⟨C05.compile_adequate_unmarshal env t hE ht,
    C05.adequate_noUnknown _ _ (C05.compile_adequate_unmarshal env t hE ht)⟩,
   ⟨C05.compile_adequate_marshal env t hE ht,
    C05.adequate_noUnknown _ _ (C05.compile_adequate_marshal env t hE ht)⟩⟩

/-- … and the routines work: on every input they compute the compositional denotation of the annotation. -/
theorem compile_works (env : Env) (L : Leaves) (t : Ty) (hE : compilableEnv env = true) (ht : compilable env t = true) :
    (∀ n x, runU (eraseEnv env) L n (compileU env t) x = um (eraseEnv env) L n (erase t) x)
    ∧ (∀ n x, runM (eraseEnv env) L n (compileM env t) x = mar (eraseEnv env) L n (erase t) x) :=
  ⟨C05.compile_sound_unmarshal env L t hE ht, C05.compile_sound_marshal env L t hE ht⟩

/-- In the vocabulary of C01 / C13 (`wfEnv`, `wfTy`). -/
theorem compile_total_wf {S : Scalar → Bool} (env : Env) (t : Ty) (hE : wfEnv S env = true) (ht : wfTy S env t = true) :
    (adequateU (eraseEnv env) (erase t) (compileU env t) = true ∧ (compileU env t).hasUnknown = false)
    ∧ (adequateM (eraseEnv env) (erase t) (compileM env t) = true ∧ (compileM env t).hasUnknown = false) :=
  compile_total env t (C05.wfEnv_compilableEnv hE) (C05.wfTy_compilable t ht)

/-- Non-vacuity: a recursive class behind a list, an alias and an `Any` position. -/
example : adequateU (eraseEnv C05.exEnv) (erase (.tuple [.coll .list (.wrap .alias (.cls 0)), .any]))
      (compileU C05.exEnv (.tuple [.coll .list (.wrap .alias (.cls 0)), .any])) = true :=
  (compile_total C05.exEnv _ (by decide) (by decide)).1.1


end Typelib.C15
